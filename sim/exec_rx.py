"""'rx' profile (C20): the same kind of scripted interactions driven through the Rx (v3) /
ReactiveX (v4) client and handler adapters; what the recording observers see must be what a
transparent adapter delivers (element for element, completion, error), with the credit ledger
checked on the wire and the delegate reached for fire-and-forget, metadata-push and setup."""
import random
from datetime import timedelta

from .world import World, SimCap
from . import app
from .oracles import Violation
from .plans import _pick, gen_policy

MAXN = 0x7FFFFFFF


def ns(version):
    """Module namespace of one adapter family."""
    if version == 4:
        import reactivex as rxm
        from reactivex import operators as ops
        from reactivex.subject import Subject
        from rsocket.reactivex.reactivex_client import ReactiveXClient as Client
        from rsocket.reactivex.reactivex_handler_adapter import reactivex_handler_factory as factory
        from rsocket.reactivex.reactivex_handler import BaseReactivexHandler as BaseHandler
        from rsocket.reactivex.reactivex_channel import ReactivexChannel as Channel
        from rsocket.reactivex.back_pressure_publisher import (from_observable_with_backpressure,
                                                               observable_from_async_generator)
        from reactivex import Observer
    else:
        import rx as rxm
        from rx import operators as ops
        from rx.subject import Subject
        from rsocket.rx_support.rx_rsocket import RxRSocket as Client
        from rsocket.rx_support.rx_handler_adapter import rx_handler_factory as factory
        from rsocket.rx_support.rx_handler import BaseRxHandler as BaseHandler
        from rsocket.rx_support.rx_channel import RxChannel as Channel
        from rsocket.rx_support.back_pressure_publisher import (from_observable_with_backpressure,
                                                                observable_from_async_generator)
        from rx.core import Observer
    return dict(rx=rxm, ops=ops, Subject=Subject, Client=Client, factory=factory, BaseHandler=BaseHandler,
                Channel=Channel, with_bp=from_observable_with_backpressure, from_agen=observable_from_async_generator,
                Observer=Observer)


_ERR_TYPES = {'runtime': RuntimeError, 'notimpl': NotImplementedError, 'value': ValueError, 'os': OSError}


def _mk_err(sc, iid):
    return _ERR_TYPES.get((sc or {}).get('error_type'), app.AppError)('E%02d' % iid)


def gen_obs(rng, direction):
    count = _pick(rng, [(1, 0), (2, 1), (3, rng.randint(2, 6)), (1, rng.randint(7, 30))])
    sc = {'count': count, 'lens': [[rng.randint(1, 120), None]], 'kind': _pick(rng, [(3, 'plain'), (2, 'bp')])}
    if rng.random() < 0.15:
        sc['error_at'] = rng.randint(0, count)
        # applications fail with all sorts of exception types
        sc['error_type'] = _pick(rng, [(3, 'app'), (2, 'runtime'), (1, 'notimpl'), (1, 'value'), (1, 'os')])
    if direction == 'c':
        sc['start_idx'] = 1
    return sc


def gen_rx(seed, opts=None):
    rng = random.Random(seed ^ 0x2E)
    version = _pick(rng, [(1, 3), (1, 4)])
    plan = {'exec': 'rx', 'profile': 'rx', 'seed': seed, 'version': version, 'framing': _pick(rng, [(3, 'tcp'), (1, 'ws')]),
            'loop': {'eps': _pick(rng, [(3, 0.0), (1, 1e-6)])},
            'client': {'fragment': _pick(rng, [(3, None), (1, 64)])}, 'server': {'fragment': _pick(rng, [(3, None), (1, 64)])},
            'link': {'c2s': gen_policy(rng, 0.15), 's2c': gen_policy(rng, 0.15)}, 'nontrivial': True,
            'setup_payload': rng.random() < 0.5}
    if plan['framing'] == 'ws':
        for p in plan['link'].values():
            p['chunk'] = 'all'
    ias = []
    for i in range(rng.randint(1, 4)):
        kind = _pick(rng, [(2, 'rr'), (4, 'stream'), (4, 'channel'), (1, 'fnf'), (1, 'push')])
        ia = {'id': i, 'kind': kind, 'at': round(rng.uniform(0, 0.01), 4), 'req': {'dlen': rng.randint(8, 100)}}
        if kind == 'rr':
            ia['resp'] = {'mode': _pick(rng, [(4, 'value'), (1, 'empty'), (1, 'error')]), 'dlen': rng.randint(1, 200)}
        elif kind == 'stream':
            ia['resp'] = gen_obs(rng, 'r')
        elif kind == 'channel':
            ia['resp'] = gen_obs(rng, 'r') if rng.random() < 0.85 else None
            ia['pub'] = gen_obs(rng, 'c') if rng.random() < 0.75 else None
            ia['resp_observer'] = ia['pub'] is not None or rng.random() < 0.5
            ia['resp_limit'] = _pick(rng, [(2, MAXN), (1, 1), (1, 2), (1, 5)])
        if kind in ('rr', 'stream', 'channel') and rng.random() < 0.3:
            # adapter on the handler side only: the requester drives the core API directly
            ia['client_api'] = 'core'
            if kind == 'channel' and ia.get('pub'):
                ia['pub']['src'] = _pick(rng, [(2, 'manual'), (2, 'gen'), (1, 'agen')])
                ia['pub']['end'] = _pick(rng, [(1, 'flag'), (1, 'separate')])
        if kind in ('stream', 'channel'):
            ia['limit'] = _pick(rng, [(2, MAXN), (2, 1), (1, 2), (1, 3), (1, rng.randint(4, 20))])
            if rng.random() < 0.2:
                ia['dispose_after'] = rng.randint(1, 4)
            elif rng.random() < 0.1:
                ia['dispose_at'] = round(rng.uniform(0, 0.01), 5)
            elif rng.random() < 0.1:
                ia['dispose_at'] = 0.0  # in the very iteration of subscribe()
                ia['dispose_now'] = rng.random() < 0.5  # ... or synchronously right after it
        ias.append(ia)
    plan['interactions'] = ias
    plan['horizon'] = 20.0
    if rng.random() < 0.25:
        # adapter on the requester side only: a core-API handler answers (elements may carry the complete flag)
        plan['server_api'] = 'core'
        for ia in ias:
            if ia.pop('client_api', None) and ia.get('pub'):
                ia['pub'].pop('src', None)
                ia['pub'].pop('end', None)
            if ia['kind'] == 'rr':
                if ia['resp']['mode'] == 'empty':
                    ia['resp']['mode'] = 'value'
            for key in ('resp',):
                sc = ia.get(key)
                if sc and 'count' in sc:
                    sc['src'] = _pick(rng, [(2, 'manual'), (2, 'gen'), (1, 'agen')])
                    sc['end'] = _pick(rng, [(1, 'flag'), (1, 'separate')])
                    sc['kind'] = 'core'
            if ia['kind'] == 'channel':
                ia['resp_limit_core'] = ia.get('resp_limit', MAXN)
    return plan


def run_rx(plan):
    world = World(plan)
    world.rr_futures = {}
    world.subscribers = {}
    world.handlers = {}
    world.install()
    try:
        _run(world, plan)
    except SimCap as e:
        world.incomplete = str(e)
    finally:
        world.final_digest = world.digest()
        world.uninstall()
    return world


def _run(world, plan):
    from rsocket.rsocket_client import RSocketClient
    from rsocket.rsocket_server import RSocketServer
    from rsocket.payload import Payload
    from .exec_core import build_link, make_transports
    N = ns(plan['version'])
    rx, ops = N['rx'], N['ops']
    loop = world.loop
    link = build_link(world, plan)
    world.link = link
    scripts = {ia['id']: ia for ia in plan['interactions']}

    def elements(iid, direction, sc):
        start = sc.get('start_idx', 0)
        out = []
        for k in range(sc['count']):
            d, m = app.elem_lens(sc, start + k)
            out.append(app.make_payload(iid, direction, start + k, d, m))
        return out

    def make_observable(iid, role, direction, sc):
        """Plain observable or back-pressure-aware factory emitting the scripted elements."""
        items = elements(iid, direction, sc)
        error_at = sc.get('error_at')

        def rec(cb, **kw):
            world.rec('pub', ep='server' if role == 'responder' else 'client', iid=iid, role=role, cb=cb, src='rx-' + sc['kind'], **kw)

        if sc['kind'] == 'plain':
            def subscribe(observer, scheduler=None):
                rec('subscribe')
                for k, it in enumerate(items):
                    if error_at is not None and k == error_at:
                        rec('error')
                        observer.on_error(_mk_err(sc, iid))
                        return
                    rec('emit', idx=sc.get('start_idx', 0) + k)
                    observer.on_next(it)
                if error_at is not None and error_at >= len(items):
                    rec('error')
                    observer.on_error(_mk_err(sc, iid))
                    return
                rec('complete')
                observer.on_completed()

            return rx.create(subscribe)

        async def agen():
            for k, it in enumerate(items):
                if error_at is not None and k == error_at:
                    rec('error')
                    raise _mk_err(sc, iid)
                rec('emit', idx=sc.get('start_idx', 0) + k)
                yield it
            if error_at is not None and error_at >= len(items):
                rec('error')
                raise _mk_err(sc, iid)
            rec('exhausted')

        def factory(backpressure):
            rec('subscribe')
            backpressure.subscribe(on_next=lambda n: rec('request', n=n), on_completed=lambda: rec('cancel'))
            return N['from_agen'](agen().__aiter__(), backpressure)

        return N['with_bp'](factory)

    class RecObserver(N['Observer']):
        def __init__(self, ep, iid, role):
            super().__init__()
            self.ep, self.iid, self.role = ep, iid, role
            self.count = 0
            self.disposable = None
            self.dispose_after = None

        def _r(self, cb, **kw):
            world.rec('sub', ep=self.ep, iid=self.iid, role=self.role, cb=cb, **kw)

        def on_next(self, value):
            self._r('on_next', data=app.nb(value.data), metadata=app.nb(value.metadata), complete=False)
            self.count += 1
            if self.dispose_after is not None and self.count == self.dispose_after and self.disposable is not None:
                world.rec('act', ep=self.ep, what='cancel', iid=self.iid, role=self.role)
                self.disposable.dispose()

        def on_error(self, error):
            self._r('on_error', err='%s: %s' % (type(error).__name__, str(error)[:100]))

        def on_completed(self):
            self._r('on_complete')

    class Delegate(N['BaseHandler']):
        def _rec(self, method, payload=None, **kw):
            if payload is not None:
                kw['data'] = app.nb(payload.data)
                kw['metadata'] = app.nb(payload.metadata)
                t = app.parse_tag(payload)
                kw['iid'] = t[0] if t else None
            world.rec('hnd', ep='server', method=method, **kw)
            return kw.get('iid')

        async def on_setup(self, data_encoding, metadata_encoding, payload):
            self._rec('on_setup', payload)

        async def on_metadata_push(self, metadata):
            self._rec('on_metadata_push', metadata)

        async def request_fire_and_forget(self, payload):
            self._rec('request_fire_and_forget', payload)

        async def request_response(self, payload):
            iid = self._rec('request_response', payload)
            resp = scripts[iid]['resp']
            if resp['mode'] == 'value':
                world.rec('pub', ep='server', iid=iid, role='responder', cb='emit', idx=0, src='rx-future')
                return rx.of(app.make_payload(iid, 'r', 0, resp['dlen'], None))
            if resp['mode'] == 'empty':
                return rx.empty()
            return rx.throw(app.AppError('E%02d' % iid))

        async def request_stream(self, payload):
            iid = self._rec('request_stream', payload)
            return make_observable(iid, 'responder', 'r', scripts[iid]['resp'])

        async def request_channel(self, payload):
            iid = self._rec('request_channel', payload)
            ia = scripts[iid]
            observable = make_observable(iid, 'responder', 'r', ia['resp']) if ia.get('resp') else None
            observer = RecObserver('server', iid, 'responder') if ia.get('resp_observer') else None
            return N['Channel'](observable, observer, ia.get('resp_limit', MAXN))

        async def on_close(self, rsocket, exception=None):
            world.rec('hnd', ep='server', method='on_close')

    def boot():
        ct, st, pump = make_transports(world, plan, link)
        if plan.get('server_api') == 'core':
            core_scripts = {}
            for ia in plan['interactions']:
                sc = {'id': ia['id'], 'kind': ia['kind'], 'by': 'client'}
                if ia['kind'] == 'rr':
                    sc['resp'] = {'mode': 'now' if ia['resp']['mode'] == 'value' else 'fail', 'dlen': ia['resp']['dlen'], 'mlen': None}
                elif ia['kind'] in ('stream', 'channel'):
                    sc['resp'] = dict(ia['resp']) if ia.get('resp') else {}
                    if ia['kind'] == 'channel' and ia.get('resp_observer'):
                        lim = ia.get('resp_limit_core', MAXN)
                        sc['resp']['sub'] = {'initial_n': lim, 'refill': [lim]}
                core_scripts[ia['id']] = sc
            Hc = app.handler_class()
            server_factory = lambda: Hc(world, 'server', core_scripts, None)
        else:
            server_factory = N['factory'](Delegate)
        server = RSocketServer(st, handler_factory=server_factory,
                               fragment_size_bytes=plan['server'].get('fragment'),
                               keep_alive_period=timedelta(seconds=1000), max_lifetime_period=timedelta(seconds=10000))
        world.tap_endpoint('server', server)
        if pump is not None:
            loop.create_task(pump())
        H = app.handler_class()

        async def provider():
            yield ct

        kw = {}
        if plan.get('setup_payload'):
            kw['setup_payload'] = Payload(app.content(77, 'q', 0, 'D', 20), None)
        client = RSocketClient(provider(), handler_factory=lambda: H(world, 'client', {}, None),
                               fragment_size_bytes=plan['client'].get('fragment'),
                               keep_alive_period=timedelta(seconds=1000), max_lifetime_period=timedelta(seconds=10000), **kw)
        world.tap_endpoint('client', client)
        world.rx_client = N['Client'](client)
        loop.create_task(client.connect())

    loop.call_soon(boot)

    def issue(ia):
        c = world.rx_client
        iid, kind = ia['id'], ia['kind']
        if ia.get('client_api') == 'core':
            core = {'id': iid, 'kind': kind, 'by': 'client', 'req': {'dlen': ia['req']['dlen'], 'mlen': None}}
            if kind in ('stream', 'channel'):
                lim = ia.get('limit', MAXN)
                core['sub'] = {'initial_n': lim, 'refill': [lim]}
                if ia.get('dispose_after'):
                    core['sub']['cancel_after'] = ia['dispose_after']
                elif ia.get('dispose_at') is not None:
                    core['sub']['cancel_at'] = ia['dispose_at']
                    core['sub']['cancel_hops'] = 0
            if kind == 'channel':
                core['pub'] = dict(ia['pub']) if ia.get('pub') else None
            app.start_interaction(world, 'client', core)
            return
        world.rec('act', ep='client', what='request', iid=iid, kind=kind)
        try:
            if kind == 'push':
                obs = c.metadata_push(app.content(iid, 'q', 0, 'M', 20))
                obs.subscribe(on_next=lambda v: None, on_error=lambda e: None)
                return
            payload = app.make_payload(iid, 'q', 0, ia['req']['dlen'], None)
            if kind == 'fnf':
                c.fire_and_forget(payload).subscribe(on_next=lambda v: None, on_error=lambda e: None)
                return
            observer = RecObserver('client', iid, 'requester')
            observer.dispose_after = ia.get('dispose_after')
            if kind == 'rr':
                obs = c.request_response(payload)
            elif kind == 'stream':
                obs = c.request_stream(payload, request_limit=ia.get('limit', MAXN))
            else:
                pub = make_observable(iid, 'requester', 'c', ia['pub']) if ia.get('pub') else None
                obs = c.request_channel(payload, request_limit=ia.get('limit', MAXN), observable=pub)
            observer._r('on_subscribe')
            observer.disposable = obs.subscribe(observer)
            if ia.get('dispose_at') is not None:
                def dispose():
                    world.rec('act', ep='client', what='cancel', iid=iid, role='requester')
                    observer.disposable.dispose()

                if ia.get('dispose_now'):
                    dispose()
                elif ia['dispose_at'] == 0.0:
                    loop.call_soon(dispose)
                else:
                    loop.call_later(ia['dispose_at'], dispose)
        except Exception as e:
            world.rec('act', ep='client', what='request_failed', iid=iid, err='%s: %s' % (type(e).__name__, str(e)[:100]))

    for ia in plan['interactions']:
        loop.call_at(0.01 + ia['at'], issue, ia)

    quiet = 10.0

    def finished():
        return loop._now > 0.05 and loop._now - world.last_progress > quiet

    loop.run_sim(until_time=plan['horizon'], stop_when=finished)
    loop.run_sim(until_time=loop.time() + 1.0)
    world.rec('mark', what='settled')
    for name in ('client', 'server'):
        try:
            world.observe_final(name)
        except Exception:
            pass

    async def closer():
        for name in ('client', 'server'):
            try:
                await world.endpoints[name].close()
            except Exception:
                pass

    loop.call_soon(lambda: loop.create_task(closer()))
    loop.run_sim(until_time=loop.time() + 1.0)
    for e in loop.exceptions:
        world.rec('loopexc', **e)
    loop.exceptions.clear()


def oracle_c20(world):
    out = []
    V = lambda cls, msg, seq=None, **f: out.append(Violation('C20', 'C20.' + cls, msg, seq, **f))
    plan = world.plan
    h = world.history
    ver = plan['version']
    mark = next((e['seq'] for e in h if e['k'] == 'mark'), float('inf'))
    hb = [e for e in h if e['seq'] < mark]

    def expected(iid, direction, sc):
        if sc is None:
            return [], None
        start = sc.get('start_idx', 0)
        err = sc.get('error_at')
        if err is not None and err >= sc['count'] > 0 and sc.get('end') == 'flag':
            err = None  # core publisher whose last element carried the complete flag: it ended before the error
        n = sc['count'] if err is None else min(sc['count'], err)
        res = []
        for k in range(n):
            d, m = app.elem_lens(sc, start + k)
            res.append((app.nb(app.content(iid, direction, start + k, 'D', d)), b''))
        return res, err

    sid_of = {}
    for e in hb:
        if e['k'] == 'enq' and e['ep'] == 'client' and e['f']['type'] in ('REQUEST_RESPONSE', 'REQUEST_STREAM', 'REQUEST_CHANNEL', 'REQUEST_FNF'):
            t = app._TAG_RE.match(bytes((e['f'].get('data') or b'')[:app.TAG_LEN]))
            if t:
                sid_of.setdefault(int(t.group(1)), e['f']['sid'])
    # setup reaches the delegate
    core_server = plan.get('server_api') == 'core'
    setups = [e for e in hb if e['k'] == 'hnd' and e['method'] == 'on_setup']
    if len(setups) != 1 and not core_server:
        V('delegate_not_reached', 'on_setup reached the delegate %d times' % len(setups), None, method='on_setup', version=ver)
    for ia in plan['interactions']:
        iid, kind = ia['id'], ia['kind']
        facts = dict(kind=kind, version=ver, framing=plan.get('framing', 'tcp'))
        if any(e for e in hb if e['k'] == 'act' and e.get('what') == 'request_failed' and e.get('iid') == iid):
            V('api_call_failed', 'adapter call for interaction %d raised' % iid, None, **facts)
            continue
        cancel = next((e for e in hb if e['k'] == 'act' and e.get('what') == 'cancel' and e.get('iid') == iid), None)
        if kind in ('fnf', 'push'):
            method = 'request_fire_and_forget' if kind == 'fnf' else 'on_metadata_push'
            if core_server and kind == 'push':
                continue  # the core recording handler does not attribute metadata-push to an interaction
            got = [e for e in hb if e['k'] == 'hnd' and e['method'] == method and e.get('iid') == iid]
            if len(got) != 1:
                V('delegate_not_reached', '%s of interaction %d reached the delegate %d times' % (method, iid, len(got)),
                  None, method=method, **facts)
            continue
        subs = [e for e in hb if e['k'] == 'sub' and e.get('iid') == iid and e['role'] == 'requester']
        delivered = [(e['data'], e['metadata']) for e in subs if e['cb'] == 'on_next']
        term = next((e for e in subs if e['cb'] in ('on_complete', 'on_error')), None)
        if cancel is not None:
            late = [e for e in subs if e['seq'] > cancel['seq'] and e['cb'] != 'on_subscribe']
            if late:
                V('signal_after_dispose', 'interaction %d: %s after the result observable was disposed' % (iid, late[0]['cb']),
                  late[0]['seq'], **facts)
        if kind == 'rr' and ia.get('client_api') == 'core':
            # core requester: the awaitable's outcome plays the observer's role
            futs = [e for e in hb if e['k'] == 'fut' and e.get('iid') == iid and e['role'] == 'requester']
            delivered, term = [], None
            if futs:
                f0 = futs[0]
                if f0['state'] == 'result':
                    if f0['data'] or f0['metadata']:
                        delivered = [(f0['data'], f0['metadata'])]
                    term = {'cb': 'on_complete', 'seq': f0['seq']}
                elif f0['state'] == 'exception':
                    term = {'cb': 'on_error', 'err': f0.get('err', ''), 'seq': f0['seq']}
        if kind == 'rr':
            mode = ia['resp']['mode']
            if mode == 'value':
                exp = [(app.nb(app.content(iid, 'r', 0, 'D', ia['resp']['dlen'])), b'')]
                if delivered != exp or term is None or term['cb'] != 'on_complete':
                    V('elements_differ', 'request-response %d: observer saw %d element(s), terminal %s'
                      % (iid, len(delivered), term['cb'] if term else None), None, **facts)
            elif mode == 'empty':
                if delivered or term is None or term['cb'] != 'on_complete':
                    V('elements_differ', 'request-response %d with empty observable: observer saw %d element(s), terminal %s'
                      % (iid, len(delivered), term['cb'] if term else None), None, **facts)
            else:
                if term is None or term['cb'] != 'on_error' or ('E%02d' % iid) not in term.get('err', ''):
                    V('error_not_preserved', 'request-response %d: handler error not delivered (%s)'
                      % (iid, term.get('err') if term else None), None, **facts)
            continue
        # stream / channel: responder -> requester
        exp, err = expected(iid, 'r', ia.get('resp'))
        for k, d in enumerate(delivered):
            if k >= len(exp) or d != exp[k]:
                V('elements_differ', 'interaction %d: element %d seen by the requester observer is not element %d of the handler observable'
                  % (iid, k, k), None, direction='r', **facts)
                break
        else:
            if cancel is None:
                if term is None:
                    V('no_terminal', 'interaction %d: requester observer got no terminal event' % iid, None, direction='r', **facts)
                elif term['cb'] == 'on_complete' and (err is not None or len(delivered) != len(exp)):
                    V('elements_differ', 'interaction %d completed after %d of %d elements' % (iid, len(delivered), len(exp)),
                      term['seq'], direction='r', **facts)
                elif term['cb'] == 'on_error' and (err is None or ('E%02d' % iid) not in term.get('err', '')):
                    V('error_not_preserved', 'interaction %d: unexpected or altered error %s' % (iid, term.get('err')),
                      term['seq'], direction='r', **facts)
        # channel: requester -> responder observer
        if kind == 'channel' and ia.get('resp_observer') and ia.get('pub'):
            rs = [e for e in hb if e['k'] == 'sub' and e.get('iid') == iid and e['role'] == 'responder']
            got = [(e['data'], e['metadata']) for e in rs if e['cb'] == 'on_next' and (e['data'] or e['metadata'])]
            exp_c, err_c = expected(iid, 'c', ia['pub'])
            rterm = next((e for e in rs if e['cb'] in ('on_complete', 'on_error')), None)
            if got != exp_c[:len(got)]:
                V('elements_differ', 'channel %d: responder observer saw different elements', None, direction='c', **facts)
            elif cancel is None:
                if rterm is None:
                    V('no_terminal', 'channel %d: responder observer got no terminal event' % iid, None, direction='c', **facts)
                elif rterm['cb'] == 'on_complete' and (err_c is not None or len(got) != len(exp_c)):
                    V('elements_differ', 'channel %d: responder observer completed after %d of %d' % (iid, len(got), len(exp_c)),
                      rterm['seq'], direction='c', **facts)
                elif rterm['cb'] == 'on_error' and err_c is None:
                    V('error_not_preserved', 'channel %d: responder observer got an unexpected error %s' % (iid, rterm.get('err')),
                      rterm['seq'], direction='c', **facts)
        sid = sid_of.get(iid)
        if sid is None:
            continue
        # request limit bounds every request
        limit = ia.get('limit', MAXN)
        reqs = [e for e in hb if e['k'] == 'enq' and e['ep'] == 'client' and e['f']['sid'] == sid
                and e['f']['type'] in ('REQUEST_STREAM', 'REQUEST_CHANNEL', 'REQUEST_N')]
        for e in reqs:
            if e['f'].get('n') is not None and e['f']['n'] > limit:
                V('limit_exceeded', 'interaction %d: %s asks for %d with request limit %d' % (iid, e['f']['type'], e['f']['n'], limit),
                  e['seq'], **facts)
                break
        if reqs and reqs[0]['f']['type'] != 'REQUEST_N' and reqs[0]['f'].get('n') != limit:
            V('limit_not_used', 'interaction %d: initial request-n %s, request limit %d' % (iid, reqs[0]['f'].get('n'), limit),
              reqs[0]['seq'], **facts)
        # handler elements never exceed the requester's credit (server side ledger)
        credit = 0
        sent = 0
        for e in hb:
            if e['k'] == 'rx' and e['ep'] == 'server' and e['f']['sid'] == sid:
                if e['f']['type'] in ('REQUEST_STREAM', 'REQUEST_CHANNEL') and e['f'].get('n') is not None:
                    credit += e['f']['n']
                elif e['f']['type'] == 'REQUEST_N':
                    credit += e['f']['n']
            elif e['k'] == 'enq' and e['ep'] == 'server' and e['f']['sid'] == sid and e['f']['type'] == 'PAYLOAD' \
                    and (e['f']['data'] or e['f']['metadata']):
                sent += 1
                if sent > credit:
                    V('emitted_beyond_credit', 'interaction %d: handler element %d on the wire with %d credits received'
                      % (iid, sent, credit), e['seq'], src=(ia.get('resp') or {}).get('kind'), **facts)
                    break
        # back-pressure factory is asked for exactly the credited amounts
        if (ia.get('resp') or {}).get('kind') == 'bp' and not core_server:
            asked = [e['n'] for e in hb if e['k'] == 'pub' and e.get('iid') == iid and e['role'] == 'responder' and e['cb'] == 'request']
            granted = [e['f']['n'] for e in hb if e['k'] == 'rx' and e['ep'] == 'server' and e['f']['sid'] == sid
                       and e['f']['type'] in ('REQUEST_STREAM', 'REQUEST_CHANNEL', 'REQUEST_N') and e['f'].get('n') is not None
                       and not (e['f']['type'] != 'REQUEST_N' and e['f'].get('follows') is None)]
            subscribed = any(e for e in hb if e['k'] == 'pub' and e.get('iid') == iid and e['role'] == 'responder' and e['cb'] == 'subscribe')
            if subscribed and asked != granted[:len(asked)] or (subscribed and cancel is None and len(asked) != len(granted)):
                V('feedback_mismatch', 'interaction %d: back-pressure factory asked for %s, requester granted %s'
                  % (iid, asked[:6], granted[:6]), None, **facts)
        # the producer stops once CANCEL has reached it (one element may already be on its way)
        crx = next((e for e in hb if e['k'] == 'rx' and e['ep'] == 'server' and e['f']['sid'] == sid and e['f']['type'] == 'CANCEL'), None)
        if crx is not None and ia.get('resp') and not core_server:
            later = [e for e in hb if e['k'] == 'pub' and e.get('iid') == iid and e['role'] == 'responder' and e['cb'] == 'emit'
                     and e['seq'] > crx['seq']]
            if len(later) > 1:
                V('producer_not_stopped', 'interaction %d: the handler observable produced %d more elements after CANCEL arrived'
                  % (iid, len(later)), later[1]['seq'], src=(ia.get('resp') or {}).get('kind'), **facts)
        # disposal cancels the stream
        if cancel is not None and term is None or (cancel is not None and term is not None and term['seq'] > cancel['seq']):
            cf = [e for e in hb if e['k'] == 'enq' and e['ep'] == 'client' and e['f']['sid'] == sid and e['f']['type'] == 'CANCEL']
            # dispose() cancels an asyncio task; the CANCEL frame is produced when that task next runs.
            # A terminal frame pulled by the client in between legitimately makes the CANCEL unnecessary.
            raced = any(e for e in hb if e['k'] == 'rx' and e['ep'] == 'client' and e['f']['sid'] == sid
                        and cancel['it'] <= e['it'] <= cancel['it'] + 2  # incl. the very frame being delivered
                        and (e['f']['type'] == 'ERROR' or (e['f']['type'] == 'PAYLOAD' and e['f'].get('complete') and not e['f'].get('follows'))))
            if len(cf) > 1 or (len(cf) == 0 and not raced):
                V('dispose_did_not_cancel', 'interaction %d: disposing the result observable produced %d CANCEL frames' % (iid, len(cf)),
                  cancel['seq'], **facts)
        # an adapter never cancels on its own: without a dispose() by the application there is no CANCEL frame
        if cancel is None and ia.get('dispose_after') is None and ia.get('dispose_at') is None:
            spont = [e for e in hb if e['k'] == 'enq' and e['ep'] == 'client' and e['f']['sid'] == sid and e['f']['type'] == 'CANCEL']
            if spont:
                after = next((e['f']['type'] for e in hb if e['k'] == 'rx' and e['ep'] == 'client' and e['f']['sid'] == sid
                              and e['seq'] < spont[0]['seq'] and (e['f']['type'] == 'ERROR' or e['f'].get('complete'))), None)
                V('spontaneous_cancel', 'interaction %d: CANCEL queued although the application never disposed the result%s'
                  % (iid, ' (after the peer\'s %s)' % after if after else ''), spont[0]['seq'], after=after, **facts)
        # (per-interaction rules end below; the order rule follows the loop)
        # nothing is asked for on a stream after its CANCEL has been queued
        cq = next((e for e in hb if e['k'] == 'enq' and e['ep'] == 'client' and e['f']['sid'] == sid and e['f']['type'] == 'CANCEL'), None)
        if cq is not None:
            late_n = [e for e in hb if e['k'] == 'enq' and e['ep'] == 'client' and e['f']['sid'] == sid and e['f']['type'] == 'REQUEST_N'
                      and e['seq'] > cq['seq']]
            if late_n:
                V('credit_after_cancel', 'interaction %d: REQUEST_N(%d) queued after the CANCEL of the same stream'
                  % (iid, late_n[0]['f'].get('n', -1)), late_n[0]['seq'], limit=ia.get('limit'), **facts)
    # the delegate sees the requests in the order in which they arrived (the core receiver handles one frame after the other)
    if not core_server:
        arrived = []
        for e in hb:
            if e['k'] == 'reasm' and e['ep'] == 'server' and e['f']['type'] in ('REQUEST_RESPONSE', 'REQUEST_STREAM', 'REQUEST_CHANNEL', 'REQUEST_FNF'):
                t = app._TAG_RE.match(bytes((e['f'].get('data') or b'')[:app.TAG_LEN]))
                if t:
                    arrived.append(int(t.group(1)))
        called = [e['iid'] for e in hb if e['k'] == 'hnd' and e['ep'] == 'server' and e.get('iid') is not None
                  and e['method'] in ('request_response', 'request_stream', 'request_channel', 'request_fire_and_forget')]
        common = [i for i in arrived if i in called]
        if [i for i in called if i in common] != common:
            kinds = {ia['id']: ia['kind'] for ia in plan['interactions']}
            first = next(i for a, i in zip([i for i in called if i in common], common) if a != i)
            V('delegate_order', 'the delegate handler was called in another order (%s) than the requests arrived (%s)'
              % ([i for i in called if i in common][:8], common[:8]), None, kind=kinds.get(first), version=ver, framing=plan.get('framing', 'tcp'))
    return out


def oracle_c09_rx(world):
    """C09 through the Rx / ReactiveX requester adapters: disposing the result observable is the
    adapter's cancel(). The disposal rules of the C20 oracle, reported under C09."""
    out = []
    for v in oracle_c20(world):
        if v.cls in ('C20.dispose_did_not_cancel', 'C20.signal_after_dispose', 'C20.producer_not_stopped', 'C20.credit_after_cancel'):
            cls = {'C20.dispose_did_not_cancel': 'C09.rx_dispose_did_not_cancel', 'C20.signal_after_dispose': 'C09.rx_signal_after_dispose',
                   'C20.producer_not_stopped': 'C09.rx_producer_not_stopped', 'C20.credit_after_cancel': 'C09.rx_credit_after_cancel'}[v.cls]
            out.append(Violation('C09', cls, v.msg, v.seq, **v.facts))
    return out
