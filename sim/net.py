"""Simulated links: ByteLink (TCP-like byte streams) and MessageLink (websocket-like messages).

Reliable and ordered by construction (RSocket's transport assumption).  What varies, under a
seeded policy: latency, read chunking/coalescing, write back-pressure (drain stalls), orderly
close, cut at a byte offset (EOF or reset), one-directional silence.
"""
import asyncio
import random
from collections import deque

from . import refcodec


class DirPolicy:
    """Per-direction delivery policy (all values explicit so a plan replays exactly)."""

    def __init__(self, d=None):
        d = d or {}
        self.latency = d.get('latency', 0.001)  # virtual seconds from write to readable
        self.jitter = d.get('jitter', 0.0)  # extra uniform [0, jitter]
        self.hops = d.get('hops', 0)  # extra loop iterations before each delivery (max, drawn)
        self.chunk = d.get('chunk', 'all')  # all | write | frame | 1 | 2 | 3 | rand
        self.chunk_max = d.get('chunk_max', 64)
        self.gap = d.get('gap', 0.0)  # virtual delay between chunks
        self.drain = d.get('drain', 'now')  # now | hops | delay | block
        self.drain_hops = d.get('drain_hops', 0)
        self.drain_delay = d.get('drain_delay', 0.0)
        self.drain_prob = d.get('drain_prob', 1.0)  # fraction of drains that stall
        self.seed = d.get('seed', 0)


class BytePipe:
    """One direction of a ByteLink."""

    def __init__(self, world, name, policy):
        self.world = world
        self.loop = world.loop
        self.name = name  # 'c2s' / 's2c'
        self.pol = DirPolicy(policy)
        self.rng = random.Random(self.pol.seed)
        self.reader = asyncio.StreamReader(limit=2 ** 24, loop=self.loop)
        self.segments = deque()  # (ready_time, bytes)
        self.last_ready = 0.0
        self.pending = bytearray()  # ready, not yet fed
        self.frame_sizes = deque()  # wire frame sizes not yet delivered (chunk='frame')
        self.frame_off = 0
        self.write_sizes = deque()
        self.accepted = 0  # bytes written into the pipe
        self.delivered = 0  # bytes fed to the reader
        self.pump_handle = None
        self.dead = False  # nothing more will be delivered
        self.eof_pending = False  # writer closed: EOF after queued bytes
        self.eof_fed = False
        self.cut_at = None
        self.cut_mode = None
        self.silent = False  # half-open: swallow bytes, deliver nothing
        self.decoder = refcodec.StreamDecoder()
        self.link = None
        self.blocked_drains = []  # futures of writers blocked in drain ('block' policy)
        self.peer_stopped_reading = False
        self.stall_until = 0.0  # drains stall until this virtual time (scripted stall window)
        self.on_frame = None  # RawPeer hook: called with each complete frame at write time

    # --- writer side --------------------------------------------------------------------
    def write(self, data):
        data = bytes(data)
        if not data:
            return
        w = self.world
        for f in self.decoder.feed(data):
            w.rec('wire', dir=self.name, f=f)
            self.frame_sizes.append(f['wire_len'])
            if self.on_frame is not None:
                self.on_frame(f)
        self.accepted += len(data)
        w.stats['bytes_' + self.name] = w.stats.get('bytes_' + self.name, 0) + len(data)
        if self.dead or self.silent:
            return
        lat = self.pol.latency + (self.rng.random() * self.pol.jitter if self.pol.jitter else 0.0)
        ready = max(self.last_ready, self.loop.time() + lat)
        self.last_ready = ready
        self.segments.append((ready, data))
        self.write_sizes.append(len(data))
        self._schedule_pump()

    def _schedule_pump(self, extra=0.0):
        if self.pump_handle is not None or self.dead:
            return
        if self.pending:
            when = self.loop.time() + extra
        elif self.segments:
            when = max(self.segments[0][0], self.loop.time() + extra)
        elif self.eof_pending and not self.eof_fed:
            when = max(self.last_ready, self.loop.time() + self.pol.latency)
        else:
            return
        self.pump_handle = self.loop.call_at(when, self._pump_hop)

    def _pump_hop(self):
        hops = self.rng.randint(0, self.pol.hops) if self.pol.hops else 0
        if hops:
            self.pump_handle = self.loop.call_after_hops(hops - 1, self._pump)
        else:
            self._pump()

    def _take(self):
        """How many of the pending bytes to feed now."""
        n = len(self.pending)
        c = self.pol.chunk
        if c == 'all':
            return n
        if c == 'write':
            k = self.write_sizes[0] if self.write_sizes else n
            return min(n, k)
        if c == 'frame':
            return min(n, self._next_frame_size())
        if c == 'rand':
            return min(n, self.rng.randint(1, max(1, self.pol.chunk_max)))
        return min(n, int(c))

    def _next_frame_size(self):
        # frame boundaries come from the wire tap (sizes appended as frames complete at write
        # time); bytes of a frame whose end is not yet written are delivered as they come
        if self.frame_sizes:
            return self.frame_sizes[0] - self.frame_off
        return len(self.pending)

    def _account_frames(self, k):
        while k:
            if not self.frame_sizes:
                self.frame_off += k
                return
            left = self.frame_sizes[0] - self.frame_off
            if k >= left:
                k -= left
                self.frame_sizes.popleft()
                self.frame_off = 0
            else:
                self.frame_off += k
                k = 0

    def _pump(self):
        self.pump_handle = None
        if self.dead:
            return
        now = self.loop.time()
        while self.segments and self.segments[0][0] <= now:
            self.pending += self.segments.popleft()[1]
        if self.pending:
            k = self._take()
            if self.cut_at is not None and self.delivered + k >= self.cut_at:
                k = self.cut_at - self.delivered
            self._account_frames(k)
            chunk = bytes(self.pending[:k])
            del self.pending[:k]
            if self.pol.chunk == 'write':
                left = k
                while left and self.write_sizes:
                    if self.write_sizes[0] <= left:
                        left -= self.write_sizes.popleft()
                    else:
                        self.write_sizes[0] -= left
                        left = 0
            if chunk:
                self.delivered += len(chunk)
                self.world.stats['chunks'] = self.world.stats.get('chunks', 0) + 1
                self.reader.feed_data(chunk)
            if self.cut_at is not None and self.delivered >= self.cut_at:
                self.link.fire_cut(self)
                return
        elif self.cut_at is not None and self.delivered >= self.cut_at:
            self.link.fire_cut(self)
            return
        if not self.pending and not self.segments and self.eof_pending and not self.eof_fed:
            self.eof_fed = True
            self.dead = True
            self.world.rec('conn', what='eof_delivered', dir=self.name)
            self.reader.feed_eof()
            return
        self._schedule_pump(self.pol.gap if self.pending else 0.0)

    def writer_closed(self):
        """Orderly close by the writing side: EOF after the bytes already queued."""
        if self.dead or self.eof_pending:
            return
        self.eof_pending = True
        self._schedule_pump()

    def kill(self, exc=None, eof=False):
        """Stop delivering. exc -> reader error; eof -> reader EOF now."""
        if self.dead and self.eof_fed:
            return
        self.dead = True
        self.segments.clear()
        self.pending.clear()
        if self.pump_handle is not None:
            self.pump_handle.cancel()
            self.pump_handle = None
        if exc is not None:
            if self.reader.exception() is None and not self.reader.at_eof():
                self.reader.set_exception(exc)
        elif eof and not self.eof_fed:
            self.eof_fed = True
            self.reader.feed_eof()
        self.release_drains()

    def release_drains(self):
        futs, self.blocked_drains = self.blocked_drains, []
        for f in futs:
            if not f.done():
                f.set_result(None)


class SimStreamWriter:
    """What TransportTCP needs from asyncio.StreamWriter."""

    def __init__(self, world, out_pipe, in_pipe, owner):
        self.world = world
        self.loop = world.loop
        self.out = out_pipe
        self.inp = in_pipe
        self.owner = owner  # 'client' / 'server'
        self.closed = False
        self.broken = None  # exception instance after a reset
        self._closed_fut = None
        self.close_calls = 0
        self.drain_calls = 0

    def write(self, data):
        if self.closed or self.broken is not None:
            self.world.stats['writes_after_close'] = self.world.stats.get('writes_after_close', 0) + 1
            if len(data):
                self.world.rec('conn', what='write_after_close', owner=self.owner, n=len(data))
            return
        self.out.write(data)

    async def drain(self):
        self.drain_calls += 1
        if self.broken is not None:
            raise ConnectionResetError('Connection lost')
        if self.closed:
            await asyncio.sleep(0)
            raise ConnectionResetError('Connection lost')
        pol = self.out.pol
        mode = pol.drain
        if self.out.peer_stopped_reading:
            # the peer has stopped reading (and half-closed): the send buffer is full, drain() waits until the connection ends
            self.world.stats['drain_stalls'] = self.world.stats.get('drain_stalls', 0) + 1
            fut = self.loop.create_future()
            self.out.blocked_drains.append(fut)
            await fut
        elif self.out.stall_until > self.loop.time():
            self.world.stats['drain_stalls'] = self.world.stats.get('drain_stalls', 0) + 1
            await asyncio.sleep(self.out.stall_until - self.loop.time())
        elif mode != 'now' and (pol.drain_prob >= 1.0 or self.out.rng.random() < pol.drain_prob):
            self.world.stats['drain_stalls'] = self.world.stats.get('drain_stalls', 0) + 1
            if mode == 'hops':
                for _ in range(pol.drain_hops):
                    await asyncio.sleep(0)
            elif mode == 'delay':
                await asyncio.sleep(pol.drain_delay)
            elif mode == 'block':
                fut = self.loop.create_future()
                self.out.blocked_drains.append(fut)
                await fut
        if self.broken is not None:
            raise ConnectionResetError('Connection lost')

    def close(self):
        self.close_calls += 1
        if self.closed:
            return
        self.closed = True
        self.world.rec('conn', what='writer_close', owner=self.owner)
        self.out.writer_closed()
        self.out.release_drains()
        # closing a transport also ends reading: own reader sees EOF on the next iteration
        self.loop.call_soon(self._own_eof)

    def _own_eof(self):
        if not self.inp.eof_fed and self.inp.reader.exception() is None:
            self.inp.kill(eof=True)

    def is_closing(self):
        return self.closed

    async def wait_closed(self):
        await asyncio.sleep(0)
        if self.broken is not None:
            # like asyncio's StreamWriter: the close waiter carries the exception the connection died with
            raise ConnectionResetError('Connection lost')

    def get_extra_info(self, name, default=None):
        return default


class ByteLink:
    def __init__(self, world, c2s_policy=None, s2c_policy=None, name='link0'):
        self.world = world
        self.name = name
        self.c2s = BytePipe(world, 'c2s', c2s_policy)
        self.s2c = BytePipe(world, 's2c', s2c_policy)
        self.c2s.link = self.s2c.link = self
        self.client_writer = SimStreamWriter(world, self.c2s, self.s2c, 'client')
        self.server_writer = SimStreamWriter(world, self.s2c, self.c2s, 'server')
        self.client_reader = self.s2c.reader
        self.server_reader = self.c2s.reader
        self.cut_fired = None

    def pipe(self, name):
        return self.c2s if name == 'c2s' else self.s2c

    def set_cut(self, direction, offset, mode, half_dead=False):
        p = self.pipe(direction)
        p.cut_at = offset
        p.cut_mode = mode
        p.cut_half_dead = half_dead
        if offset == 0:
            # nothing of this direction is ever delivered: fire when the first delivery would happen
            pass

    def fire_cut(self, pipe):
        if self.cut_fired is not None:
            return
        self.cut_fired = (pipe.name, pipe.delivered, pipe.cut_mode)
        self.world.rec('fault', what='cut', dir=pipe.name, offset=pipe.delivered, mode=pipe.cut_mode)
        self.world.fault_fired('cut_' + pipe.cut_mode)
        if pipe.cut_mode == 'reset':
            self.reset()
        else:
            if getattr(pipe, 'cut_half_dead', False):
                # the peer half-closes and stops reading: whatever the other side still writes goes nowhere
                other = self.s2c if pipe is self.c2s else self.c2s
                other.peer_stopped_reading = True
                other.silent = True
            pipe.kill(eof=True)

    def reset(self):
        """Transport error: both directions die, both readers raise, writes/drains raise."""
        exc1 = ConnectionResetError('Connection reset by peer')
        exc2 = ConnectionResetError('Connection reset by peer')
        self.client_writer.broken = exc1
        self.server_writer.broken = exc2
        self.c2s.kill(exc=exc2)
        self.s2c.kill(exc=exc1)

    def eof_now(self, direction):
        self.pipe(direction).kill(eof=True)

    def silence(self, direction, on=True):
        self.pipe(direction).silent = on

    def idle(self):
        for p in (self.c2s, self.s2c):
            if not p.dead and (p.segments or p.pending):
                return False
        return True


# ----------------------------------------------------------------------------------------
# message framing (websocket-shaped)
# ----------------------------------------------------------------------------------------

class _Msg:
    __slots__ = ('type', 'data', 'extra')

    def __init__(self, type_, data):
        self.type = type_
        self.data = data
        self.extra = ''


_CLOSE = object()


class FakeWebSocket:
    """Quacks like aiohttp's ClientWebSocketResponse / web.WebSocketResponse as far as the
    aiohttp transports use them: async iteration of messages, send_bytes, close."""

    def __init__(self, world, owner, policy):
        import aiohttp
        self._binary = aiohttp.WSMsgType.BINARY
        self._text = aiohttp.WSMsgType.TEXT
        self.world = world
        self.loop = world.loop
        self.owner = owner
        self.pol = DirPolicy(policy)  # policy of the *outgoing* direction
        self.rng = random.Random(self.pol.seed)
        self.inbox = asyncio.Queue()
        self.peer = None
        self.closed = False
        self.outq = deque()  # (ready_time, item)
        self.last_ready = 0.0
        self.pump_handle = None
        self.name = 'c2s' if owner == 'client' else 's2c'
        self.sent = 0
        self.silent = False
        self.stall_until = 0.0
        self.fail_send = None
        self.on_frame = None
        self.link = None
        self.delivered = 0  # messages handed to the peer's reader
        self.cut_at = None  # the link dies instead of delivering message number cut_at of this direction
        self.cut_mode = 'eof'
        self.dead = False

    def __aiter__(self):
        return self

    async def __anext__(self):
        item = await self.inbox.get()
        if item is _CLOSE:
            if not self.closed:
                # aiohttp answers the peer's close (or the end of the stream underneath) by closing its own side
                self.closed = True
                self.world.rec('conn', what='ws_close', owner=self.owner, auto=True)
                self._push(_CLOSE)
            raise StopAsyncIteration
        if isinstance(item, Exception):
            raise item
        return item

    async def send_bytes(self, data):
        if self.fail_send is not None:
            raise self.fail_send
        if self.closed:
            raise ConnectionResetError('Cannot write to closing transport')
        data = bytes(data)
        try:
            f = refcodec.decode(data)
        except refcodec.RefDecodeError as e:
            f = {'type': 'UNDECODABLE', 'sid': -1, 'error': str(e), 'len': len(data), 'raw': data}
        f['wire_len'] = len(data)
        self.world.rec('wire', dir=self.name, f=f)
        if self.on_frame is not None:
            self.on_frame(f)
        self.sent += 1
        self.world.stats['bytes_' + self.name] = self.world.stats.get('bytes_' + self.name, 0) + len(data)
        self._push(_Msg(self._binary, data))
        pol = self.pol
        if self.stall_until > self.loop.time():
            self.world.stats['drain_stalls'] = self.world.stats.get('drain_stalls', 0) + 1
            await asyncio.sleep(self.stall_until - self.loop.time())
        elif pol.drain != 'now' and (pol.drain_prob >= 1.0 or self.rng.random() < pol.drain_prob):
            self.world.stats['drain_stalls'] = self.world.stats.get('drain_stalls', 0) + 1
            if pol.drain == 'hops':
                for _ in range(pol.drain_hops):
                    await asyncio.sleep(0)
            elif pol.drain == 'delay':
                await asyncio.sleep(pol.drain_delay)

    def _push(self, item):
        if self.silent or self.dead:
            return
        lat = self.pol.latency + (self.rng.random() * self.pol.jitter if self.pol.jitter else 0.0)
        ready = max(self.last_ready, self.loop.time() + lat)
        self.last_ready = ready
        self.outq.append((ready, item))
        if self.pump_handle is None:
            self.pump_handle = self.loop.call_at(ready, self._pump_hop)

    def _pump_hop(self):
        hops = self.rng.randint(0, self.pol.hops) if self.pol.hops else 0
        if hops:
            self.pump_handle = self.loop.call_after_hops(hops - 1, self._pump)
        else:
            self._pump()

    def _pump(self):
        self.pump_handle = None
        now = self.loop.time()
        if self.dead:
            self.outq.clear()
            return
        if self.outq and self.outq[0][0] <= now:
            _, item = self.outq.popleft()
            if self.cut_at is not None and self.delivered >= self.cut_at and self.link is not None:
                self.link.fire_cut(self)
                if self.dead:
                    return
            self.delivered += 1
            self.peer.inbox.put_nowait(item)
            self.world.stats['chunks'] = self.world.stats.get('chunks', 0) + 1
        if self.outq:
            self.pump_handle = self.loop.call_at(max(now, self.outq[0][0]), self._pump_hop)

    def raw_send(self, body):
        """RawPeer: put one message on the wire from this side without going through a transport."""
        body = bytes(body)
        try:
            f = refcodec.decode(body)
        except refcodec.RefDecodeError as e:
            f = {'type': 'UNDECODABLE', 'sid': -1, 'error': str(e), 'len': len(body), 'raw': body}
        f['wire_len'] = len(body)
        self.world.rec('wire', dir=self.name, f=f)
        self._push(_Msg(self._binary, body))

    def raw_send_text(self, text):
        """RawPeer: a websocket TEXT message (str payload), which no RSocket endpoint sends."""
        self.world.rec('wire', dir=self.name, f={'type': 'WS_TEXT', 'sid': -1, 'len': len(text), 'wire_len': len(text)})
        self._push(_Msg(self._text, text))

    def inject(self, item):
        """Harness-side: deliver a raw item (message / exception / close) to this socket's reader."""
        self.inbox.put_nowait(item)

    async def close(self, *a, **k):
        if self.closed:
            return
        self.closed = True
        self.world.rec('conn', what='ws_close', owner=self.owner)
        self._push(_CLOSE)
        self.inbox.put_nowait(_CLOSE)

    def idle(self):
        return not self.outq


class MessageLink:
    def __init__(self, world, c2s_policy=None, s2c_policy=None, name='mlink0'):
        self.world = world
        self.name = name
        self.client_ws = FakeWebSocket(world, 'client', c2s_policy)
        self.server_ws = FakeWebSocket(world, 'server', s2c_policy)
        self.client_ws.peer = self.server_ws
        self.server_ws.peer = self.client_ws
        self.client_ws.link = self.server_ws.link = self
        self.cut_fired = None

    def ws_of(self, direction):
        return self.client_ws if direction == 'c2s' else self.server_ws

    def set_cut(self, direction, offset, mode):
        """The connection is lost instead of delivering message number `offset` of `direction`."""
        ws = self.ws_of(direction)
        ws.cut_at = offset
        ws.cut_mode = mode

    def fire_cut(self, ws):
        if self.cut_fired is not None:
            return
        self.cut_fired = (ws.name, ws.delivered, ws.cut_mode)
        self.world.rec('fault', what='cut', dir=ws.name, offset=ws.delivered, mode=ws.cut_mode)
        self.world.fault_fired('cut_' + ws.cut_mode)
        if ws.cut_mode == 'reset':
            self.reset()
        else:
            # this direction ends: its reader sees the close, nothing sent later arrives
            ws.dead = True
            ws.outq.clear()
            ws.peer.inbox.put_nowait(_CLOSE)

    def reset(self):
        """The connection underneath both websockets is gone.  As with aiohttp's websocket objects the reader does
        not raise: it may yield one message of type ERROR, then the iteration simply ends; sends raise; messages in
        flight are lost."""
        import aiohttp
        for ws in (self.client_ws, self.server_ws):
            ws.dead = True
            ws.outq.clear()
            ws.fail_send = ConnectionResetError('Cannot write to closing transport')
            if ws.rng.random() < 0.5:
                ws.inbox.put_nowait(_Msg(aiohttp.WSMsgType.ERROR, ConnectionResetError('websocket connection lost')))
            ws.inbox.put_nowait(_CLOSE)

    def idle(self):
        return self.client_ws.idle() and self.server_ws.idle()

    def transport_error(self, side):
        """The websocket iteration of `side` raises (connection dropped underneath)."""
        ws = self.client_ws if side == 'client' else self.server_ws
        self.world.rec('fault', what='ws_error', side=side)
        self.world.fault_fired('ws_error')
        ws.inject(ConnectionResetError('websocket connection lost'))
        ws.fail_send = ConnectionResetError('websocket connection lost')
