"""SimLoop: a virtual-time asyncio event loop with a deterministic scheduler.

No selector, no threads, no real clock.  Ready callbacks stay FIFO (asyncio guarantees
call_soon order and library code relies on it); timers are totally ordered by (when, seq).
Quiescence ("nothing runnable, no timer") is reported, never waited for.
"""
import asyncio
import heapq
import sys
import threading
from asyncio import events


class SimCap(Exception):
    """A per-run cap (iterations / virtual time) was hit: the run is incomplete."""


class SimTimerHandle(asyncio.TimerHandle):
    __slots__ = ('_seq',)

    def __lt__(self, other):
        return (self._when, self._seq) < (other._when, other._seq)

    def __le__(self, other):
        return (self._when, self._seq) <= (other._when, other._seq)

    def __gt__(self, other):
        return (self._when, self._seq) > (other._when, other._seq)

    def __ge__(self, other):
        return (self._when, self._seq) >= (other._when, other._seq)


class SimLoop(asyncio.BaseEventLoop):
    def __init__(self, eps=0.0, max_iters=200_000, tie_rng=None):
        super().__init__()
        self._now = 0.0
        self._timer_seq = 0
        self.eps = eps
        self.iters = 0
        self.max_iters = max_iters
        self.tie_rng = tie_rng  # random.Random or None: permute equal-deadline timers
        self.exceptions = []  # recorded by the exception handler
        self.set_exception_handler(self._record_exception)
        self._task_counter = 0
        self.set_task_factory(self._sim_task_factory)
        self.on_iteration = None  # hook(loop) called before each iteration (sweeps)

    # -- clock ---------------------------------------------------------------------------
    def time(self):
        return self._now

    # -- things BaseEventLoop expects from a selector loop ---------------------------------
    def _process_events(self, event_list):
        pass

    def _write_to_self(self):
        pass

    def _timer_handle_cancelled(self, handle):
        pass  # cancelled timers are dropped lazily when they reach the head

    # -- tasks ---------------------------------------------------------------------------
    def _sim_task_factory(self, loop, coro, **kwargs):
        self._task_counter += 1
        kwargs.pop('name', None)
        task = asyncio.Task(coro, loop=loop, name='t%d' % self._task_counter, **kwargs)
        return task

    def _record_exception(self, loop, context):
        exc = context.get('exception')
        self.exceptions.append({
            'iter': self.iters,
            'message': context.get('message', ''),
            'exception': repr(exc) if exc is not None else None,
            'type': type(exc).__name__ if exc is not None else None,
        })

    # -- timers --------------------------------------------------------------------------
    def call_at(self, when, callback, *args, context=None):
        if when is None:
            raise TypeError("when cannot be None")
        self._check_closed()
        timer = SimTimerHandle(when, callback, args, self, context)
        self._timer_seq += 1
        if self.tie_rng is not None:
            # any order among equal deadlines is legal for a real heap; permute it
            timer._seq = self.tie_rng.random()
        else:
            timer._seq = self._timer_seq
        heapq.heappush(self._scheduled, timer)
        timer._scheduled = True
        return timer

    def call_later(self, delay, callback, *args, context=None):
        if delay is None:
            raise TypeError('delay must not be None')
        return self.call_at(self._now + delay, callback, *args, context=context)

    def call_after_hops(self, hops, callback, *args):
        """Run callback `hops` loop iterations from now (0 = next iteration, like call_soon)."""
        if hops <= 0:
            return self.call_soon(callback, *args)
        return self.call_soon(self.call_after_hops, hops - 1, callback, *args)

    # -- the scheduler -------------------------------------------------------------------
    def next_timer_when(self):
        sched = self._scheduled
        while sched and sched[0]._cancelled:
            h = heapq.heappop(sched)
            h._scheduled = False
        return sched[0]._when if sched else None

    def _run_once(self):
        sched = self._scheduled
        if not self._ready:
            when = self.next_timer_when()
            if when is None:
                return False
            if when > self._now:
                self._now = when
        now = self._now
        while sched and sched[0]._when <= now:
            h = heapq.heappop(sched)
            h._scheduled = False
            if not h._cancelled:
                self._ready.append(h)
        ntodo = len(self._ready)
        ready = self._ready
        for _ in range(ntodo):
            h = ready.popleft()
            if h._cancelled:
                continue
            h._run()
        self.iters += 1
        if self.eps:
            self._now += self.eps
        return True

    def run_sim(self, until_time=None, stop_when=None):
        """Run until `stop_when()` is true, virtual time reaches `until_time`, or the loop is idle.

        Returns 'stop', 'time' or 'idle'.  Raises SimCap when the iteration cap is hit.
        """
        self._check_closed()
        self._check_running()
        old_agen_hooks = sys.get_asyncgen_hooks()
        try:
            self._thread_id = threading.get_ident()
            sys.set_asyncgen_hooks(firstiter=self._asyncgen_firstiter_hook,
                                   finalizer=self._asyncgen_finalizer_hook)
            events._set_running_loop(self)
            while True:
                if self.on_iteration is not None:
                    # sweeps place actions at exact iteration numbers; fire them even when the loop
                    # would otherwise be idle at that point
                    self.on_iteration(self)
                if stop_when is not None and stop_when():
                    return 'stop'
                if not self._ready:
                    when = self.next_timer_when()
                    if when is None:
                        if until_time is not None and until_time > self._now:
                            self._now = until_time
                            return 'time'
                        return 'idle'
                    if until_time is not None and when > until_time:
                        if until_time > self._now:
                            self._now = until_time
                        return 'time'
                elif until_time is not None and self._now >= until_time and self.eps:
                    return 'time'
                if self.iters >= self.max_iters:
                    raise SimCap('iteration cap %d hit at t=%r' % (self.max_iters, self._now))
                self._run_once()
        finally:
            self._thread_id = None
            events._set_running_loop(None)
            sys.set_asyncgen_hooks(*old_agen_hooks)

    def drain_and_close(self):
        """Cancel every task still alive, let the cancellations run, close the loop."""
        try:
            for _ in range(20):
                tasks = [t for t in asyncio.all_tasks(self) if not t.done()]
                if not tasks:
                    break
                for t in tasks:
                    t.cancel()
                saved, self.max_iters = self.max_iters, self.iters + 5000
                try:
                    self.run_sim(until_time=self._now)
                except SimCap:
                    break
                finally:
                    self.max_iters = saved
            # run pending async-generator finalizers
            try:
                saved, self.max_iters = self.max_iters, self.iters + 5000
                t = self.create_task(self.shutdown_asyncgens())
                self.run_sim(stop_when=t.done)
            except Exception:
                pass
        finally:
            self._ready.clear()
            self._scheduled.clear()
            self.close()
