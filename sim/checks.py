"""Registry: property -> profiles (plan generators), run counts per tier, oracle set."""
from . import plans as P
from . import oracles as O
from . import exec_parser as XP
from . import profiles_peer as PP
from . import exec_reconnect as XR
from . import profiles_hostile as PH
from . import exec_routing as XRT
from . import exec_rx as XRX

# profile name -> (generator function, options)
PROFILES = {}


def profile(name, gen, **opts):
    opts['name'] = name
    PROFILES[name] = (gen, opts)


profile('core', P.gen_core, cancels=0.0, stall_bias=0.3)
profile('core-tcp', P.gen_core, cancels=0.0, framing=[(1, 'tcp')])
profile('core-msg', P.gen_core, cancels=0.0, framing=[(1, 'ws')])
profile('core-frag', P.gen_core, cancels=0.0,
        fragments=[(4, 64), (2, 65), (2, 70), (2, 100), (1, 128), (1, 256)], errors=False)
profile('core-stall', P.gen_core, cancels=0.0, stall_bias=0.9, stall_faults=0.8, burst=True,
        fragments=[(4, 64), (2, 70), (2, 100), (1, 256), (1, None)],
        kinds=[(2, 'rr'), (4, 'stream'), (5, 'channel'), (1, 'fnf')], framing=[(4, 'tcp'), (1, 'ws')])
profile('core-await', P.gen_core, cancels=0.0, awaitable=0.7, kinds=[(4, 'stream'), (4, 'channel'), (1, 'rr')])
profile('core-credit', P.gen_core, cancels=0.0, kinds=[(4, 'stream'), (5, 'channel'), (1, 'rr')],
        sources=[(4, 'gen'), (4, 'agen'), (1, 'manual')], max_count=50, errors=False, long_streams=0.04, empty_requests=0.15)
profile('core-cancel', P.gen_core, cancels=0.5, cancel_sent=1.0, on_cancel_raises=0.15, kinds=[(6, 'rr'), (6, 'stream'), (6, 'channel'), (2, 'fnf'), (1, 'push')])
profile('core-ends', P.gen_core, cancels=0.25, p_resp_pub=0.7, p_req_pub=0.6, p_resp_sub=0.8, lib_streams=0.15,
        kinds=[(2, 'rr'), (3, 'stream'), (5, 'channel'), (1, 'fnf')])

profile('refused-n', P.gen_refused_n, cancels=0.0, errors=False, stall_faults=0.0, max_count=20,
        kinds=[(1, 'rr'), (4, 'stream'), (4, 'channel'), (1, 'fnf')])
profile('core-ids', P.gen_ids, cancels=0.15)
profile('core-ids-ends', P.gen_ids, cancels=0.0, errors=False, stall_faults=0.0,
        rr_modes=[(4, 'now'), (2, 'delay'), (2, 'hops')])  # only normal endings: no stale frames when a tiny id space comes round

profile('parser', XP.gen_parser)

profile('cut', P.gen_cut)
profile('cut-msg', P.gen_cut, framing=[(1, 'ws')])
profile('cut-sweep', P.gen_cut_base, sweep='cut', max_points=500,
        n_interactions=[(2, 1), (3, 2), (2, 3)])
profile('cut-sweep-full', P.gen_cut_base, sweep='cut', max_points=10**9, small=True,
        n_interactions=[(3, 1), (3, 2), (1, 3)])
profile('cancel-sweep', P.gen_core, sweep='cancel', max_points=400, cancels=0.0, errors=False,
        kinds=[(3, 'rr'), (3, 'stream'), (3, 'channel')], n_interactions=[(2, 1), (2, 2), (2, 3)], max_count=8,
        stall_bias=0.15, stall_faults=0.0)

profile('lease-req', PP.gen_lease_requester)
profile('lease-resp', PP.gen_lease_responder)
profile('keepalive', PP.gen_keepalive)
profile('setup-client', PP.gen_setup_client)
profile('setup-server', PP.gen_setup_server)

profile('reconnect', XR.gen_reconnect)
profile('reconnect-lease', XR.gen_reconnect_lease)
profile('reconnect-connfail', XR.gen_reconnect_connfail)
profile('reconnect-sweep', XR.gen_reconnect, sweep='reconnect', max_points=400)

profile('hostile', PH.gen_hostile)
profile('buggify', PH.gen_buggify)

profile('routing', XRT.gen_routing)
profile('routing-close', XRT.gen_routing, close=True)

profile('rx', XRX.gen_rx)

profile('core-lease', P.gen_core_lease)
profile('core-eager', P.gen_core_eager)

profile('id-reuse', PH.gen_id_reuse)
profile('id-reuse-after-end', PH.gen_id_reuse_after_end)

profile('peer-script', PP.gen_peer_script)
profile('peer-script-grid', PP.gen_peer_script_grid, grid=True, grid_size=PP.peer_grid_size)

profile('frag-grid', P.gen_frag_grid, grid=True)
profile('frag-huge', P.gen_frag_huge)

profile('core-close', P.gen_core_close, cancels=0.0)

# property -> {'profiles': [(name, quick_runs, thorough_runs)], 'oracles': [...]}
CHECKS = {
    'C01': {'profiles': [('core', 3000, 120000), ('core-msg', 1000, 40000), ('core-frag', 1500, 60000),
                         ('core-stall', 1500, 60000), ('core-await', 1000, 40000), ('core-close', 2000, 60000),
                         ('reconnect', 2000, 60000)],
            'oracles': {'core': [O.oracle_c01], 'core-msg': [O.oracle_c01], 'core-frag': [O.oracle_c01], 'core-stall': [O.oracle_c01],
                        'core-await': [O.oracle_c01], 'core-close': [O.oracle_c01_close], 'reconnect': [XR.oracle_c01_reconnect]},
            'level': 'exploration'},
    'C03': {'profiles': [('core-frag', 2500, 100000), ('core-stall', 1000, 40000), ('core-msg', 500, 20000),
                         ('frag-grid', 4000, 'grid'), ('reconnect', 2000, 60000), ('frag-huge', 8, 200)],
            'oracles': {'frag-huge': [O.oracle_c03_huge], 'core-frag': [O.oracle_c03], 'core-stall': [O.oracle_c03], 'core-msg': [O.oracle_c03], 'frag-grid': [O.oracle_c03],
                        'reconnect': [XR.oracle_c03_reconnect]}, 'level': 'exploration'},
    'C04': {'profiles': [('parser', 20000, 600000)], 'oracles': [XP.oracle_c04], 'level': 'exploration'},
    'C05': {'profiles': [('core-stall', 3500, 140000), ('core-frag', 1500, 60000), ('core', 1000, 40000),
                         ('core-cancel', 1000, 40000)],
            'oracles': [O.oracle_c05], 'level': 'exploration'},
    'C06': {'profiles': [('core-credit', 4000, 160000), ('core', 1500, 60000), ('core-stall', 1000, 40000),
                         ('core-eager', 1000, 40000), ('core-await', 1000, 40000)],
            'oracles': [O.oracle_c06], 'level': 'exploration'},
    'C08': {'profiles': [('core', 2000, 80000), ('core-cancel', 2000, 80000), ('core-ends', 1500, 60000),
                         ('core-lease', 1000, 40000), ('core-eager', 1000, 40000), ('core-await', 1000, 40000),
                         ('reconnect', 2000, 60000), ('routing', 2000, 60000)],
            'oracles': {'routing': [XRT.oracle_c08_routing], 'core': [O.oracle_c08], 'core-cancel': [O.oracle_c08], 'core-ends': [O.oracle_c08], 'core-lease': [O.oracle_c08],
                        'core-eager': [O.oracle_c08], 'core-await': [O.oracle_c08], 'reconnect': [XR.oracle_c08_reconnect]},
            'level': 'exploration'},
    'C13': {'profiles': [('core-ids', 10000, 50000), ('core', 2000, 10000), ('id-reuse', 4000, 20000)],
            'oracles': {'core-ids': [O.oracle_c13], 'core': [O.oracle_c13], 'id-reuse': [PH.oracle_c13_reuse]},
            'level': 'exploration'},
    'C07': {'profiles': [('core-cancel', 2000, 80000), ('core-ends', 2000, 80000), ('core', 1000, 40000),
                         ('peer-script', 12000, 400000), ('peer-script-grid', 4000, 'grid'), ('cut', 2000, 80000), ('cut-msg', 1000, 40000)],
            'oracles': {'core-cancel': [O.oracle_c07], 'core-ends': [O.oracle_c07], 'core': [O.oracle_c07],
                        'cut': [O.oracle_c07], 'cut-msg': [O.oracle_c07], 'peer-script': [PP.oracle_c07_peer],
                        'peer-script-grid': [PP.oracle_c07_peer]}, 'level': 'exploration'},
    'C09': {'profiles': [('core-cancel', 4000, 150000), ('cancel-sweep', 60, 2500), ('core-lease', 1000, 40000),
                         ('rx', 3000, 100000)],
            'oracles': {'core-cancel': [O.oracle_c09], 'cancel-sweep': [O.oracle_c09], 'core-lease': [O.oracle_c09],
                        'rx': [XRX.oracle_c09_rx]}, 'level': 'exploration'},
    'C11': {'profiles': [('cut', 4000, 150000), ('cut-msg', 2000, 60000), ('cut-sweep', 32, 1000), ('cut-sweep-full', 12, 400),
                         ('routing-close', 1500, 40000)],
            'oracles': {'cut': [O.oracle_c11], 'cut-msg': [O.oracle_c11], 'cut-sweep': [O.oracle_c11], 'cut-sweep-full': [O.oracle_c11],
                        'routing-close': [XRT.oracle_c11_routing]}, 'level': 'fault_enumeration'},
    'C14': {'profiles': [('lease-req', 24000, 120000), ('lease-resp', 6000, 30000), ('reconnect-lease', 6000, 30000)],
            'oracles': {'lease-req': [PP.oracle_c14], 'lease-resp': [PP.oracle_c14], 'reconnect-lease': [XR.oracle_c14_reconnect]},
            'level': 'exploration'},
    'C15': {'profiles': [('keepalive', 16000, 80000)], 'oracles': [PP.oracle_c15], 'level': 'exploration'},
    'C16': {'profiles': [('setup-client', 16000, 80000), ('setup-server', 8000, 40000)],
            'oracles': [PP.oracle_c16], 'level': 'exploration'},
    'C17': {'profiles': [('reconnect', 12000, 60000), ('reconnect-connfail', 4000, 20000), ('reconnect-sweep', 32, 160)],
            'oracles': [XR.oracle_c17], 'level': 'exploration'},
    'C12': {'profiles': [('hostile', 12000, 400000), ('buggify', 3000, 100000), ('routing', 2000, 60000)],
            'oracles': {'hostile': [PH.oracle_c12_hostile], 'buggify': [PH.oracle_c12_buggify], 'routing': [XRT.oracle_c12_routing]},
            'level': 'exploration'},
    'C19': {'profiles': [('routing', 20000, 100000)], 'oracles': [XRT.oracle_c19], 'level': 'exploration'},
    'C20': {'profiles': [('rx', 16000, 80000)], 'oracles': [XRX.oracle_c20], 'level': 'exploration'},
    'C10': {'profiles': [('core-ends', 3500, 140000), ('core', 1500, 60000), ('core-frag', 1000, 40000),
                         ('core-ids-ends', 1000, 40000), ('id-reuse-after-end', 3000, 100000), ('cancel-sweep', 16, 160),
                         ('refused-n', 1500, 15000)],
            'oracles': {'cancel-sweep': [O.oracle_c10], 'core-ends': [O.oracle_c10], 'core': [O.oracle_c10], 'core-frag': [O.oracle_c10], 'core-ids-ends': [O.oracle_c10], 'refused-n': [O.oracle_c10],
                        'id-reuse-after-end': [PH.oracle_c10_reuse]}, 'level': 'exploration'},
}


def oracles_for(prop, plan):
    o = CHECKS[prop]['oracles']
    if isinstance(o, dict):
        return o[plan.get('profile')]
    return o


def grid_total():
    return sum(P.frag_grid_size(F) for F in P.FRAG_GRID_F) * 2


def make_plan(prop, profile_name, base_seed, index, extra=None):
    gen, opts = PROFILES[profile_name]
    seed = P.run_seed(base_seed, prop, profile_name, index)
    if opts.get('grid'):
        o = dict(opts, grid_index=index, grid_stride=(extra or {}).get('grid_stride', 1))
        plan = gen(seed, o)
        plan['_id'] = {'property': prop, 'profile': profile_name, 'base_seed': base_seed, 'index': index,
                       'grid_stride': o['grid_stride']}
        return plan
    plan = gen(seed, opts)
    plan['_id'] = {'property': prop, 'profile': profile_name, 'base_seed': base_seed, 'index': index}
    if extra:
        plan.update(extra)
    return plan


def expand(prop, profile_name, base_seed, index, extra, run):
    """Yield the plans of one job. Ordinary profiles: one plan. Sweep profiles: the base plan is
    executed fault-free first (run(plan) -> result dict) and one plan per fault point follows."""
    gen, opts = PROFILES[profile_name]
    sweep = opts.get('sweep')
    if not sweep:
        yield make_plan(prop, profile_name, base_seed, index, extra)
        return
    import copy
    base = make_plan(prop, profile_name, base_seed, index, extra)
    res = run(copy.deepcopy(base))
    limit = opts.get('max_points', 600)
    points = []
    if sweep == 'cut':
        for d in ('c2s', 's2c'):
            total = res['stats'].get('bytes_' + d, 0)
            for mode in ('eof', 'reset'):
                for off in range(0, total + 1):
                    points.append({'kind': 'cut', 'dir': d, 'offset': off, 'mode': mode})
        lo = res.get('connected_iter') or 1
        for who in ('client', 'server'):
            for it in range(lo, res['stats'].get('iters_main', res['iters']) + 1):
                points.append({'kind': 'close', 'who': who, 'at_iter': it})
    elif sweep == 'cancel':
        tgt = base['interactions'][index % len(base['interactions'])]
        span = res.get('spans', {}).get(tgt['id'])
        if span:
            for it in range(span[0], span[1] + 2):
                points.append({'cancel_iid': tgt['id'], 'at_iter': it})
    elif sweep == 'reconnect':
        lo = res.get('connected_iter') or 1
        for it in range(lo, res['stats'].get('iters_main', res['iters']) + 1):
            points.append({'kind': 'reconnect', 'at_iter': it})
    total_points = len(points)
    if total_points > limit:
        # deterministic stride; first and last points always kept
        step = total_points / float(limit)
        points = [points[int(i * step)] for i in range(limit)]
    yield ('meta', {'base_index': index, 'points_total': total_points, 'points_run': len(points)})
    for pt in points:
        p = copy.deepcopy(base)
        p['_id'] = dict(base['_id'], point=pt)
        if 'cancel_iid' in pt:
            for ia in p['interactions']:
                if ia['id'] == pt['cancel_iid']:
                    if ia['kind'] == 'rr':
                        ia['cancel'] = {'at_iter': pt['at_iter']}
                    else:
                        ia.setdefault('sub', {})['cancel_at_iter'] = pt['at_iter']
        elif pt.get('kind') == 'reconnect':
            p['events'][0]['at_iter'] = pt['at_iter']
        else:
            p.setdefault('faults', []).append(pt)
        yield p


THOROUGH_FACTOR = 10
GRID_BUDGET = 300000


def jobs_for(prop, tier):
    jobs = []
    for name, quick, thorough in CHECKS[prop]['profiles']:
        n = quick if tier == 'quick' else thorough
        if tier == 'thorough' and isinstance(n, int):
            # machine budget: all 18 thorough checks together have to fit into a few hours of this 16-core sandbox
            n = min(n, quick * THOROUGH_FACTOR)
        size = PROFILES[name][1].get('grid_size', grid_total)
        if n == 'grid' and size() > GRID_BUDGET:
            # too large for the machine budget: every k-th point (k co-prime with the window's period, all strata hit)
            stride = -(-size() // GRID_BUDGET)
            while stride > 1 and size() % stride == 0:
                stride += 1
            jobs.extend((name, i, {'grid_stride': stride}) for i in range(size() // stride))
        elif n == 'grid':
            jobs.extend((name, i, None) for i in range(size()))  # the whole window, every point once
        elif PROFILES[name][1].get('grid'):
            # a stride through the grid that is co-prime with its period so that all strata are hit
            stride = max(1, size() // n)
            while stride > 1 and size() % stride == 0:
                stride += 1
            jobs.extend((name, i, {'grid_stride': stride}) for i in range(n))
        else:
            jobs.extend((name, i, None) for i in range(n))
    return jobs

REAL_DEFAULT = ['rsocket.rsocket_client.RSocketClient', 'rsocket.rsocket_server.RSocketServer', 'rsocket.rsocket_base',
                'rsocket.handlers.*', 'rsocket.stream_control', 'rsocket.frame_fragment_cache', 'rsocket.queue_peekable',
                'rsocket.frame', 'rsocket.frame_parser', 'rsocket.frame_fragmenter', 'rsocket.streams.*',
                'rsocket.transports.tcp.TransportTCP', 'rsocket.transports.aiohttp_websocket (both transports)',
                'rsocket.transports.abstract_messaging', 'asyncio.StreamReader', 'asyncio Queue/Event/Future/Task']
STUB_DEFAULT = ['event loop (SimLoop: virtual time, seeded scheduler)', 'wall clock (rsocket_client.datetime, lease.datetime)',
                'asyncio.StreamWriter (SimStreamWriter)', 'websocket object (FakeWebSocket)', 'network (ByteLink/MessageLink)',
                'application handlers, publishers, subscribers (scripted, recording)']
REAL_COMPONENTS = {}
ASSUMPTIONS_DEFAULT = [
    'transport is reliable and ordered (no loss/duplication/reordering injected): RSocket assumes it',
    'ready callbacks run FIFO as asyncio guarantees; only externally caused events are placed by the scheduler',
    'private observations trusted: _stream_control._streams, _frame_fragment_cache._frames_by_stream_id, _send_queue',
    'sampling, not enumeration: a clean batch is evidence, not proof',
]
ASSUMPTIONS = {}

NOT_BUILT = 'check not built yet in this phase (see DESIGN.md §7 build order); no claim is made'
NOT_APPLICABLE = {
    'C02': 'pure function of the frame value (codec round-trip / backend independence): no schedule, clock, fault or '
           'interleaving for a simulator to own; deciding it would be input generation, not this technique (DESIGN.md §4)',
    'C18': 'pure encode/decode functions of extension metadata: no nondeterminism to simulate (DESIGN.md §4)',
}
for _p in ['C%02d' % i for i in range(1, 21)]:
    NOT_APPLICABLE.setdefault(_p, NOT_BUILT)

MANIFEST_NOTES = ('All checks are ./simcheck check <id> --tier quick|thorough (fixed run counts per tier, 16 forked workers, '
                  'VERIF_SEED honoured). Exit 0 held / 1 violation (VIOLATION property=<id> replay=<path>) / 2 harness error / '
                  '3 incomplete. Known findings: /verif/known_findings.json (KNOWN-FINDING lines, exit 0).')

_EXPL = ('seeded search over schedules, delivery timings, read chunkings, write stalls and scenario shapes; every run is one '
         'exactly replayable simulated execution of the real client and server; a clean batch is evidence, not proof')
MANIFEST_TEXT = {
    'C01': {'text': 'exploration: ' + _EXPL + '. Oracle: tagged payloads, delivered == emitted per interaction and direction, '
                    'exactly once, no cross-talk; errored/cancelled interactions deliver a prefix. Also: delivery across an orderly '
                    'close, and across reconnects (a request is only delivered on the connection it was issued on; responses correlate).',
            'note': 'reference content function and recording application layer are trusted; reliable ordered transport assumed'},
    'C03': {'text': 'exploration (narrow claim): wire invariant on every fragment of every simulated run (size limit, types, '
                    'follows/complete flags, metadata before data, single frame when it fits) plus peer reassembly vs queued '
                    'source. Lengths are sampled with a bias to fragment boundaries, plus a deterministic length-window grid; '
                    'across reconnects the client reassembles only what one of its servers queued.',
            'note': 'independent reference decoder on the wire; FrameFragmentCache.append tapped at class level'},
    'C04': {'text': 'exploration: the same byte stream fed through the real StreamReader + TransportTCP + FrameParser under '
                    'seeded read chunkings and buffer sizes must decode to the same frames as the one-shot parse and as the '
                    'independent reference decoder; messages through the real aiohttp transports yield at most the frame '
                    'they contain; termination guarded deterministically.',
            'note': 'frame sequences are sampled (valid frames of all 14 types + correctly delimited junk)'},
    'C05': {'text': 'exploration: ' + _EXPL + ', biased to write stalls, bursts and small fragment sizes. Oracle: per stream, '
                    'reassembled wire units in wire order equal queued frames in queue order; no frame of a stream between '
                    'the fragments of another frame of that stream.',
            'note': 'queue order observed by an instance-level tap on send_frame/send_priority_frame; stream 0 exempt'},
    'C06': {'text': 'exploration: ' + _EXPL + '. Oracle: credit ledger per stream at the producer (payloads queued <= credit '
                    'received so far), application grants transmitted with exactly their value, nothing withheld at quiescence.',
            'note': 'library sources: StreamFromGenerator, StreamFromAsyncGenerator (observable-backed ones under C20)'},
    'C08': {'text': 'exploration: ' + _EXPL + '. Oracle: per-role stream state machine judged at enqueue time against the '
                    'endpoint\'s own receptions, plus reception-independent wire rules (SETUP first, a stream starts with its request '
                    'frame, COMPLETE only on the last fragment, after a reconnect only frames of streams opened on that connection).',
            'note': 'literal reading of the statement: own ERROR, own requester CANCEL, both directions completed terminate emission'},
    'C10': {'text': 'exploration: ' + _EXPL + '; oracle at drained quiescence: every stream still registered is a leak if all interactions '
                    'finished, or - when some never finish - if the frames that endpoint itself queued and received show that stream '
                    'terminated; reassembly cache empty; reduced id space makes ids be reused and the re-user must be served. Also over '
                    'the cancel-moment sweep (cancel() at every loop iteration of an interaction) and a RawPeer that re-uses an id in the '
                    'same write as the CANCEL that ended its stream.',
            'note': 'private observations _stream_control._streams and _frame_fragment_cache._frames_by_stream_id (as the suite)'},
    'C13': {'text': 'exploration: ' + _EXPL + ' with the id space reduced to 2^k-1 (7..63) or the cursor placed just below 2^31 so '
                    'allocation wraps while ids are live. Oracle: reference allocator over must-live / maybe-live sets.',
            'note': '_maximum_stream_id / _current_stream_id knobs set by the harness, as the suite does'},
}

MANIFEST_TEXT.update({
    'C07': {'text': 'exploration: ' + _EXPL + ', over cancel-, error- and close-heavy scenario mixes. Oracle: subscriber signal '
                    'grammar on_subscribe (on_next)* (terminal)? with nothing after it, request-response awaitables resolved '
                    'exactly once by the end of the run (the final close included), no InvalidStateError inside the library. '
                    'Plus a bounded enumeration against a scripted peer: every sequence of up to 4 protocol-legal peer frames for each '
                    'role x model x side (thorough: every point once; quick: a stride), with seeded local actions and connection end.',
            'note': 'recording subscribers and futures of the harness; peer frame sequences are enumerated up to length 4, local '
                    'actions and timings are sampled'},
    'C09': {'text': 'exploration + fault-point enumeration: seeded cancel-heavy runs, plus a cancel-moment sweep that re-runs a '
                    'base scenario once per loop iteration between the request and its termination with cancel() placed '
                    'exactly there. Oracle: one CANCEL, silence at the canceller afterwards, producer cancelled / production '
                    'stopped on the peer unless it had already finished.',
            'note': 'request-response: zero CANCEL frames accepted when the response is pulled in the same or next loop iteration as cancel()'},
    'C11': {'text': 'fault enumeration: for each base scenario every byte offset of each direction x {EOF, reset} and close() by '
                    'either side at every loop iteration is visited (stride-subsampled above a cap, reported), plus a seeded '
                    'swarm. Oracle after the settle window: nothing requested before the loss is left pending, producers '
                    'cancelled, on_close exactly once per endpoint, no frame queued or written afterwards, tasks finished.',
            'note': 'byte-offset enumeration over the TCP framing (anchor transports/tcp.py); the swarm also runs the aiohttp websocket '
                    'transports over the message link (loss in place of the n-th message, aiohttp semantics: the iteration ends '
                    'without raising); requests issued after the loss are judged at that endpoint\'s own later close()'},
})

_PEER = ('one real endpoint against a scripted RawPeer that speaks through the harness\'s own codec; pure discrete-event time '
         '(eps = 0), instants on an integer-millisecond grid so that boundaries (exact expiry, exact period) are hit')
MANIFEST_TEXT.update({
    'C12': {'text': 'exploration: (a) real server / client against a hostile RawPeer sending seeded sequences of random bytes, empty and '
                    'short frames or messages, truncated frames, unknown types, frames for unknown / finished streams, orphan fragments, '
                    'out-of-place RESUME/LEASE, interleaved with valid requests and followed by a probe request; (b) buggify: seeded subsets '
                    'of handler entry points and publisher methods raise in real client<->server runs. Oracle: valid and probe requests '
                    'answered correctly, ERROR only on offending streams, tasks alive, connection not taken down, parser termination guard.',
            'note': 'only correctly delimited junk (an over-long length prefix legitimately makes a byte-stream parser wait)'},
    'C14': {'text': 'exploration: ' + _PEER + '. Requester: LEASE frames (n 0..max, ttl 1 ms..max) interleaved with requests of all four types '
                    'incl. exactly at reception and at expiry, queue sizes 0/1/3; LeaseModel oracle (no request without lease, <= n, none at or '
                    'after expiry, FIFO release, once, rejected only when the queue is full, released on arrival). Responder: scripted lease '
                    'publisher; LEASE frames == published leases (count, exact milliseconds).',
            'note': 'model computes expiry in integer microseconds exactly like the clock seam'},
    'C15': {'text': 'exploration: ' + _PEER + '. Periods 10 ms..10 min, lifetimes below/equal/above the period, server that always echoes, '
                    'never, stops or starts at an instant, or delays echoes; injected KEEPALIVEs with and without the respond flag to both '
                    'roles. Oracle: echo 1:1 with equal data, period exact, first within one period, no false timeout, detection within two lifetimes.',
            'note': 'nothing asserted for silences between one and two lifetimes'},
    'C16': {'text': 'exploration: ' + _PEER + '. Client configurations (sub-second periods, str/bytes/well-known encodings, payload, lease) with '
                    'connect() returning at once / after hops / after a delay and requests issued meanwhile; servers receiving SETUP variants '
                    'and RESUME. Oracle: SETUP first and once, fields == configuration; on_setup once / matching ERROR code on stream 0.',
            'note': 'periods that are not whole milliseconds are not judged (rounding unspecified)'},
    'C17': {'text': 'exploration: real client whose transport provider hands out fresh simulated links to fresh real servers; 1-4 consecutive '
                    'connection endings by server EOF, reset, keepalive timeout (silent server) or reconnect() while healthy, requested from '
                    'on_close, on_keepalive_timeout or the script. Oracle: old transport closed, pending failed, one new transport per request, '
                    'fresh SETUP first, ids from 1, keepalives resume, probes (client- and server-initiated) served with the right payload, '
                    'on_close once per ended connection. Variants: servers that fragment with links cut at a byte offset inside a fragmented '
                    'frame, transports whose connect() suspends or fails (dial refused, reconnect asked from on_connection_error), leases; plus fault-point enumeration of the reconnect moment: a base scenario '
                    're-run with reconnect() requested at every loop iteration in turn (stride-subsampled above a cap).',
            'note': 'reconnect requests are spaced so that each yields exactly one new transport'},
    'C19': {'text': 'exploration (narrow claim): PRNG route tables on the library\'s RoutingRequestHandler with recording coroutines, requests of '
                    'all five types with known / other-type / unknown / empty / missing routes, route entry at any position of the composite '
                    'metadata, no / rejected / accepted authentication, verifier that suspends; 2-6 concurrently. Oracle: reference dispatch '
                    'table; errors on that request alone; parameters as annotated; no handler for unauthenticated requests.',
            'note': 'the input x program quantifier is sampled; composite metadata built with the library\'s own extension codecs (C18 not claimed)'},
    'C20': {'text': 'exploration: interactions driven through RxRSocket / ReactiveXClient and the handler adapters (both Rx versions) with '
                    'plain and back-pressure-aware observables, request limits 1..max, errors, disposal moments. Oracle: observers see exactly '
                    'the scripted elements/terminal events, request-n <= limit, handler elements <= credit, feedback subject == credited '
                    'amounts, dispose -> one CANCEL (or none when the terminal frame raced), delegate reached for fnf / metadata-push / setup.',
            'note': 'equivalence with the core API is asserted against the scripted expectation rather than by a second core-API execution'},
})
