"""Registry: property -> profiles (plan generators), run counts per tier, oracle set."""
from . import plans as P
from . import oracles as O

# profile name -> (generator function, options)
PROFILES = {}


def profile(name, gen, **opts):
    opts['name'] = name
    PROFILES[name] = (gen, opts)


profile('core', P.gen_core, cancels=0.0, stall_bias=0.3)
profile('core-tcp', P.gen_core, cancels=0.0, framing=[(1, 'tcp')])
profile('core-msg', P.gen_core, cancels=0.0, framing=[(1, 'ws')])
profile('core-frag', P.gen_core, cancels=0.0,
        fragments=[(4, 64), (2, 65), (2, 70), (2, 100), (1, 128), (1, 256)], errors=False)
profile('core-stall', P.gen_core, cancels=0.0, stall_bias=0.9, stall_faults=0.8, burst=True,
        fragments=[(4, 64), (2, 70), (2, 100), (1, 256), (1, None)],
        kinds=[(2, 'rr'), (4, 'stream'), (5, 'channel'), (1, 'fnf')], framing=[(4, 'tcp'), (1, 'ws')])
profile('core-credit', P.gen_core, cancels=0.0, kinds=[(4, 'stream'), (5, 'channel'), (1, 'rr')],
        sources=[(4, 'gen'), (4, 'agen'), (1, 'manual')], max_count=50, errors=False)
profile('core-cancel', P.gen_core, cancels=0.5, kinds=[(3, 'rr'), (3, 'stream'), (3, 'channel')])
profile('core-ends', P.gen_core, cancels=0.25, p_resp_pub=0.7, p_req_pub=0.6, p_resp_sub=0.8,
        kinds=[(2, 'rr'), (3, 'stream'), (5, 'channel'), (1, 'fnf')])

# property -> {'profiles': [(name, quick_runs, thorough_runs)], 'oracles': [...]}
CHECKS = {
    'C01': {'profiles': [('core', 3000, 120000), ('core-msg', 1000, 40000), ('core-frag', 1500, 60000),
                         ('core-stall', 1500, 60000)],
            'oracles': [O.oracle_c01], 'level': 'exploration'},
    'C03': {'profiles': [('core-frag', 3000, 120000), ('core-stall', 1500, 60000), ('core-msg', 1000, 40000)],
            'oracles': [O.oracle_c03], 'level': 'exploration'},
    'C05': {'profiles': [('core-stall', 4000, 160000), ('core-frag', 1500, 60000), ('core', 1000, 40000)],
            'oracles': [O.oracle_c05], 'level': 'exploration'},
    'C06': {'profiles': [('core-credit', 4000, 160000), ('core', 1500, 60000), ('core-stall', 1000, 40000)],
            'oracles': [O.oracle_c06], 'level': 'exploration'},
    'C08': {'profiles': [('core', 2500, 100000), ('core-cancel', 2500, 100000), ('core-ends', 1500, 60000)],
            'oracles': [O.oracle_c08], 'level': 'exploration'},
    'C10': {'profiles': [('core-ends', 4000, 160000), ('core', 1500, 60000), ('core-frag', 1000, 40000)],
            'oracles': [O.oracle_c10], 'level': 'exploration'},
}


def oracles_for(prop, plan):
    return CHECKS[prop]['oracles']


def make_plan(prop, profile_name, base_seed, index, extra=None):
    gen, opts = PROFILES[profile_name]
    seed = P.run_seed(base_seed, prop, profile_name, index)
    plan = gen(seed, opts)
    plan['_id'] = {'property': prop, 'profile': profile_name, 'base_seed': base_seed, 'index': index}
    if extra:
        plan.update(extra)
    return plan


def jobs_for(prop, tier):
    jobs = []
    for name, quick, thorough in CHECKS[prop]['profiles']:
        n = quick if tier == 'quick' else thorough
        jobs.extend((name, i, None) for i in range(n))
    return jobs

REAL_DEFAULT = ['rsocket.rsocket_client.RSocketClient', 'rsocket.rsocket_server.RSocketServer', 'rsocket.rsocket_base',
                'rsocket.handlers.*', 'rsocket.stream_control', 'rsocket.frame_fragment_cache', 'rsocket.queue_peekable',
                'rsocket.frame', 'rsocket.frame_parser', 'rsocket.frame_fragmenter', 'rsocket.streams.*',
                'rsocket.transports.tcp.TransportTCP', 'rsocket.transports.aiohttp_websocket (both transports)',
                'rsocket.transports.abstract_messaging', 'asyncio.StreamReader', 'asyncio Queue/Event/Future/Task']
STUB_DEFAULT = ['event loop (SimLoop: virtual time, seeded scheduler)', 'wall clock (rsocket_client.datetime, lease.datetime)',
                'asyncio.StreamWriter (SimStreamWriter)', 'websocket object (FakeWebSocket)', 'network (ByteLink/MessageLink)',
                'application handlers, publishers, subscribers (scripted, recording)']
REAL_COMPONENTS = {}
ASSUMPTIONS_DEFAULT = [
    'transport is reliable and ordered (no loss/duplication/reordering injected): RSocket assumes it',
    'ready callbacks run FIFO as asyncio guarantees; only externally caused events are placed by the scheduler',
    'private observations trusted: _stream_control._streams, _frame_fragment_cache._frames_by_stream_id, _send_queue',
    'sampling, not enumeration: a clean batch is evidence, not proof',
]
ASSUMPTIONS = {}
