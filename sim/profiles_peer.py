"""Virtual-clock profiles against a scripted RawPeer: lease (C14), keepalive (C15), setup (C16).

All instants are on an integer-millisecond grid and the loop runs with eps = 0 (pure
discrete-event time), so 'exactly at expiry' and 'exactly one period' are really hit and the
reference models compute with the same arithmetic as the library's clock seam.
"""
import random

from . import app, refcodec as rc
from .oracles import Violation, REQ_TYPES, KIND_BY_TYPE
from .plans import _pick

MS = 0.001


def _tag_iid(f):
    for part in (f.get('data'), f.get('metadata')):
        if part:
            m = app._TAG_RE.match(bytes(part[:app.TAG_LEN]))
            if m and m.group(2) == b'q':
                return int(m.group(1))
    return None


# =============================================================================================
# C14 lease
# =============================================================================================

def gen_lease_requester(seed, opts=None):
    rng = random.Random(seed ^ 0x1EA5E)
    qsize = _pick(rng, [(3, 0), (2, 1), (2, 3)])
    plan = {'exec': 'peer', 'profile': 'lease-req', 'seed': seed, 'role': 'client', 'framing': _pick(rng, [(3, 'tcp'), (1, 'ws')]),
            'loop': {'eps': 0.0},
            'endpoint': {'honor_lease': True, 'request_queue_size': qsize, 'fragment': _pick(rng, [(3, None), (1, 64)]),
                         'keepalive_ms': 10_000_000},
            'link': {'c2s': {'latency': 0.001, 'seed': 1}, 's2c': {'latency': _pick(rng, [(2, 0.001), (1, 0.0), (1, 0.003)]), 'seed': 2}},
            'auto': {'respond': 'complete', 'respond_delay': 0.001}, 'nontrivial': True}
    horizon_ms = _pick(rng, [(2, 200), (2, 2000), (1, 3_600_000)])
    if rng.random() < 0.3:
        # leases in both directions: the endpoint also grants leases to its peer (its own publisher); what it may send
        # is governed by the leases it RECEIVES only
        plan['endpoint']['lease_script'] = [{'at': round(rng.randint(0, 300) * MS, 4), 'n': _pick(rng, [(1, 0), (1, 3), (2, 1000)]),
                                            'ttl_us': _pick(rng, [(1, 5_000), (1, 500_000), (2, 600_000_000)]), 'sync': rng.random() < 0.2}
                                           for _ in range(rng.randint(1, 4))]
        plan['endpoint']['lease_script'].sort(key=lambda x: x['at'])
    script = []
    t = rng.randint(0, 30)
    lease_times = []
    for _ in range(rng.randint(1, 6)):
        ttl = _pick(rng, [(2, rng.randint(1, 50)), (2, rng.randint(50, 1500)), (1, rng.randint(1500, 120_000)),
                          (1, 0x7FFFFFFF), (1, 0)])  # 0: a lease that has expired the moment it arrives
        n = _pick(rng, [(1, 0), (3, rng.randint(1, 5)), (1, rng.randint(6, 40)), (1, 0x7FFFFFFF)])
        script.append({'at': t * MS, 'frame': {'t': 'LEASE', 'ttl_ms': ttl, 'n': n}})
        lease_times.append((t, ttl))
        t += _pick(rng, [(2, rng.randint(1, 60)), (2, min(ttl, 5000) + rng.randint(-2, 5)), (1, rng.randint(1, 2000))])
        t = max(t, lease_times[-1][0] + 1)
    plan['script'] = script
    ias = []
    arrive = [lt + 1 + lat for lt, _ in lease_times for lat in (0,)]  # lease arrives 1 ms (latency) later: see link
    s2c_lat_ms = int(round(plan['link']['s2c']['latency'] * 1000))
    for i in range(rng.randint(1, 12)):
        r = rng.random()
        if r < 0.35 and lease_times:
            lt, ttl = rng.choice(lease_times)
            # around reception (lt + latency) and around expiry (reception + ttl)
            base = lt + s2c_lat_ms + rng.choice([0, 0, min(ttl, 10_000_000)])
            at = max(0, base + rng.choice([-1, 0, 0, 1]))
        else:
            at = rng.randint(0, max(1, min(t + 50, 400)))
        kind = _pick(rng, [(3, 'rr'), (2, 'fnf'), (2, 'stream'), (2, 'channel')])
        ia = {'id': i, 'kind': kind, 'by': 'client', 'at': at * MS,
              'req': {'dlen': _pick(rng, [(3, rng.randint(8, 40)), (1, rng.randint(100, 300))]), 'mlen': None}}
        if kind in ('stream', 'channel'):
            ia['sub'] = {'initial_n': _pick(rng, [(1, 1), (1, 5), (1, 0x7FFFFFFF)])}
        if kind == 'channel':
            ia['pub'] = None
        if kind == 'rr' and rng.random() < 0.1:
            ia['cancel'] = {'at': rng.randint(0, 5) * MS}
        ias.append(ia)
    ias.sort(key=lambda x: (x['at'], x['id']))
    plan['interactions'] = ias
    last = max([x['at'] for x in ias] + [s['at'] for s in script])
    plan['horizon'] = last + 0.5
    return plan


def gen_lease_responder(seed, opts=None):
    rng = random.Random(seed ^ 0x1EA5F)
    items = []
    t = rng.randint(0, 20)
    for _ in range(rng.randint(1, 6)):
        ttl_ms = _pick(rng, [(2, rng.randint(1, 999)), (2, rng.choice([250, 500, 750, 1500, 1250, 2500])),
                             (2, rng.randint(1000, 600_000)), (1, 0x7FFFFFFF), (1, 0)])
        n = _pick(rng, [(1, 0), (3, rng.randint(1, 100)), (1, 0x7FFFFFFF)])
        items.append({'at': t * MS, 'n': n, 'ttl_us': ttl_ms * 1000})
        t += rng.randint(1, 400)
    rng2 = random.Random(seed ^ 0x9EAD)  # separate stream: the plans stay what they were
    for it in items:
        if rng2.random() < 0.3:
            it['precreate'] = True  # the lease object is built when the publisher is subscribed and published at 'at'
    plan = {'exec': 'peer', 'profile': 'lease-resp', 'seed': seed, 'role': 'server', 'framing': _pick(rng, [(3, 'tcp'), (1, 'ws')]),
            'loop': {'eps': 0.0},
            'endpoint': {'lease_script': items},
            'link': {'c2s': {'latency': 0.001, 'seed': 1}, 's2c': {'latency': 0.001, 'seed': 2}},
            'script': [{'at': 0.0, 'frame': {'t': 'SETUP', 'lease': True, 'keepalive_ms': 10_000_000, 'lifetime_ms': 20_000_000}}],
            'interactions': [], 'horizon': t * MS + 0.5, 'nontrivial': True}
    return plan


def oracle_c14(world):
    out = []
    V = lambda cls, msg, seq=None, **f: out.append(Violation('C14', 'C14.' + cls, msg, seq, **f))
    plan = world.plan
    h = world.history
    if plan['profile'] == 'lease-resp':
        pubs = [e for e in h if e['k'] == 'pub' and e.get('src') == 'lease' and e['cb'] == 'emit']
        frames = [e for e in h if e['k'] == 'enq' and e['f']['type'] == 'LEASE']
        exp = [(e['n'], e['ttl_us'] // 1000) for e in pubs]
        got = [(e['f']['n'], e['f']['ttl_ms']) for e in frames]
        if got != exp:
            i = next((k for k in range(min(len(got), len(exp))) if got[k] != exp[k]), min(len(got), len(exp)))
            e_, g_ = (exp[i] if i < len(exp) else None), (got[i] if i < len(got) else None)
            sub_second = bool(e_ and e_[1] % 1000)
            V('lease_frame_mismatch', 'lease %d published as (n, ttl ms)=%s but announced as %s' % (i, e_, g_),
              frames[i]['seq'] if i < len(frames) else None, field='n' if (e_ and g_ and e_[0] != g_[0]) else 'ttl',
              ttl_has_subsecond_part=sub_second)
        wire = [e for e in h if e['k'] == 'wire' and e['dir'] == 's2c' and e['f']['type'] == 'LEASE']
        gotw = [(e['f']['n'], e['f']['ttl_ms']) for e in wire]
        if gotw != got:
            V('lease_wire_mismatch', 'LEASE frames on the wire %s differ from the queued ones %s' % (gotw[:4], got[:4]))
        return out
    # requester side ----------------------------------------------------------------------
    ia = {x['id']: x for x in plan['interactions']}
    qsize = plan['endpoint'].get('request_queue_size', 0)
    us = lambda t: int(round(t * 1_000_000))  # the clock seam's own resolution and rounding
    lease = None  # dict(n, expiry (integer microseconds), used)
    waiting = []  # iids retained in application order
    sent = []
    app_order = []
    facts0 = dict(queue_size=qsize, framing=plan.get('framing', 'tcp'), fragmented=bool(plan['endpoint'].get('fragment')))
    pending_release = 0
    for ev in h:
        k = ev['k']
        if k == 'rx' and ev['f']['type'] == 'LEASE':
            f = ev['f']
            lease = {'n': f['n'], 'expiry': us(ev['t']) + f['ttl_ms'] * 1000, 'used': 0, 'rx_seq': ev['seq'], 'it': ev['it']}
            # requests waiting are released now, in order, as far as the lease allows
            can = min(len(waiting), lease['n']) if us(ev['t']) < lease['expiry'] else 0
            lease['must_release'] = list(waiting[:can])
        elif k == 'act' and ev.get('what') == 'request':
            iid = ev['iid']
            app_order.append(iid)
            ev_fail = next((e for e in h if e['k'] == 'act' and e.get('what') == 'request_failed' and e.get('iid') == iid), None)
            valid = lease is not None and us(ev['t']) < lease['expiry'] and lease['used'] < lease['n']
            if ev_fail is not None:
                if 'QueueFull' in ev_fail.get('err', ''):
                    if qsize == 0 or len(waiting) < qsize:
                        V('rejected_with_room', 'request %d rejected (queue full) with %d of %s waiting' % (iid, len(waiting), qsize or 'unbounded'),
                          ev_fail['seq'], **facts0)
                    if valid and not waiting:
                        V('rejected_with_lease', 'request %d rejected although a lease with spare requests is current' % iid,
                          ev_fail['seq'], **facts0)
                continue
            if not valid:
                waiting.append(iid)
        elif k == 'enq' and ev['f']['type'] in REQ_TYPES:
            iid = _tag_iid(ev['f'])
            facts = dict(facts0, type=ev['f']['type'])
            if iid in sent:
                V('request_sent_twice', 'request %s put on the wire twice' % iid, ev['seq'], **facts)
                continue
            sent.append(iid)
            if lease is None:
                V('sent_without_lease', 'request %s sent before any LEASE arrived' % iid, ev['seq'], **facts)
                continue
            if us(ev['t']) >= lease['expiry']:
                V('sent_after_expiry', 'request %s sent %.3f ms after the lease expired' % (iid, (us(ev['t']) - lease['expiry']) / 1000.0),
                  ev['seq'], at_exact_expiry=us(ev['t']) == lease['expiry'], **facts)
            lease['used'] += 1
            if lease['used'] > lease['n']:
                V('sent_beyond_grant', 'request %s is number %d under a lease granting %d' % (iid, lease['used'], lease['n']),
                  ev['seq'], **facts)
            if waiting:
                if waiting[0] == iid:
                    waiting.pop(0)
                elif iid in waiting:
                    V('not_fifo', 'request %s released before the earlier waiting request %s' % (iid, waiting[0]), ev['seq'], **facts)
                    waiting.remove(iid)
                else:
                    V('overtook_waiting', 'request %s sent while the earlier request %s is still waiting' % (iid, waiting[0]),
                      ev['seq'], **facts)
            if lease.get('must_release') and iid in lease['must_release']:
                lease['must_release'].remove(iid)
    # liveness: what a lease allowed to be released was released at its arrival
    for ev in h:
        pass
    if lease is not None and lease.get('must_release'):
        V('not_released', 'requests %s stayed queued although the last lease allowed them' % lease['must_release'][:5],
          None, **facts0)
    return out


# =============================================================================================
# C15 keepalive
# =============================================================================================

def gen_keepalive(seed, opts=None):
    rng = random.Random(seed ^ 0xCA11)
    role = _pick(rng, [(4, 'client'), (1, 'server')])
    P = _pick(rng, [(2, rng.randint(10, 100)), (2, rng.randint(100, 2000)), (1, rng.randint(2000, 600_000))])
    L = _pick(rng, [(2, P * rng.randint(2, 5)), (1, P + rng.randint(1, P)), (1, max(10, P // 2)), (1, P), (1, rng.randint(10, 600_000))])
    L = min(L, 150 * P)  # keeps the number of keepalives per run bounded (virtual time is free, frames are not)
    plan = {'exec': 'peer', 'profile': 'keepalive', 'seed': seed, 'role': role, 'framing': _pick(rng, [(3, 'tcp'), (1, 'ws')]),
            'loop': {'eps': 0.0}, 'endpoint': {'keepalive_us': P * 1000, 'lifetime_us': L * 1000},
            'link': {'c2s': {'latency': _pick(rng, [(2, 0.001), (1, 0.0), (1, 0.005)]), 'seed': 1},
                     's2c': {'latency': _pick(rng, [(2, 0.001), (1, 0.0), (1, 0.005)]), 'seed': 2}},
            'interactions': [], 'script': [], 'nontrivial': True, 'P_ms': P, 'L_ms': L}
    horizon_ms = min(40 * max(P, L), 5 * L + 20 * P)
    horizon_ms = max(horizon_ms, 4 * L + 4 * P)
    if role == 'client':
        mode = _pick(rng, [(3, 'echo'), (2, 'none'), (3, 'until'), (2, 'delay'), (1, 'from')])
        if mode == 'echo':
            plan['auto'] = {'keepalive': 'echo'}
        elif mode == 'none':
            plan['auto'] = {'keepalive': 'none'}
        elif mode == 'until':
            plan['auto'] = {'keepalive': {'until': rng.randint(0, max(1, horizon_ms // 2)) * MS}}
        elif mode == 'from':
            plan['auto'] = {'keepalive': {'from': rng.randint(0, max(1, 3 * L)) * MS}}
        else:
            d = _pick(rng, [(2, rng.randint(0, max(1, L - 1))), (1, L), (2, L + rng.randint(1, max(2, L)))])
            plan['auto'] = {'keepalive': {'delay': d * MS}}
    else:
        plan['auto'] = {'keepalive': 'none'}
        plan['script'].append({'at': 0.0, 'frame': {'t': 'SETUP', 'keepalive_ms': P, 'lifetime_ms': L}})
    # keepalives injected by the peer: respond-flagged (must be echoed once, same data) and plain (never answered)
    for _ in range(rng.randint(0, 8)):
        data = bytes(rng.getrandbits(8) for _ in range(rng.choice([0, 1, 7, 40])))
        plan['script'].append({'at': rng.randint(1, max(2, horizon_ms // 2)) * MS,
                               'frame': {'t': 'KEEPALIVE', 'respond': rng.random() < 0.6, 'data': data.hex(),
                                         'position': rng.randint(0, 2 ** 62)}})
    if role == 'client' and P <= 2000 and rng.random() < 0.4:
        # a busy connection: application frames queued (and a transport whose send really waits) when the keep-alive
        # timer fires -- the KEEPALIVE is still due every period, whatever is ahead of it in the send queue
        d_ms = _pick(rng, [(2, max(1, P // 4)), (1, max(1, P // 10)), (1, P)])
        plan['link']['c2s'].update(drain='delay', drain_delay=d_ms * MS)
        ias = []
        n_ticks = max(1, horizon_ms // P)
        for b in range(rng.randint(1, 4)):
            tick = rng.randint(1, min(n_ticks, 12))
            start = max(0, tick * P - rng.choice([0, 1, d_ms, 2 * d_ms]))
            for j in range(rng.randint(2, 6)):
                ias.append({'id': len(ias), 'kind': 'fnf', 'by': 'client', 'at': start * MS, 'hops': rng.choice([0, 0, 1, 2]),
                            'req': {'dlen': rng.randint(8, 40), 'mlen': None}})
        ias.sort(key=lambda x: (x['at'], x['id']))
        plan['interactions'] = ias
        plan['busy'] = True
    plan['script'].sort(key=lambda s: s['at'])
    plan['horizon'] = horizon_ms * MS
    plan['end_close'] = True
    return plan


def oracle_c15(world):
    out = []
    V = lambda cls, msg, seq=None, **f: out.append(Violation('C15', 'C15.' + cls, msg, seq, **f))
    plan = world.plan
    role = plan['role']
    h = world.history
    P = plan['P_ms'] / 1000.0
    L = plan['L_ms'] / 1000.0
    mark = next((e for e in h if e['k'] == 'mark'), None)
    end_seq = mark['seq'] if mark else float('inf')
    end_t = mark['t'] if mark else world.loop._now
    facts0 = dict(role=role, framing=plan.get('framing', 'tcp'), P_ms=plan['P_ms'], L_ms=plan['L_ms'])
    # --- echo ---------------------------------------------------------------------------------
    rx = [e for e in h if e['k'] == 'rx' and e['ep'] == role and e['f']['type'] == 'KEEPALIVE' and e['seq'] < end_seq]
    enq_plain = [e for e in h if e['k'] == 'enq' and e['ep'] == role and e['f']['type'] == 'KEEPALIVE'
                 and not e['f'].get('respond') and e['seq'] < end_seq]
    timeouts = [e for e in h if e['k'] == 'hnd' and e['method'] == 'on_keepalive_timeout']
    first_to = timeouts[0]['seq'] if timeouts else float('inf')
    need = [e for e in rx if e['f'].get('respond') and e['seq'] < first_to]
    # match in order
    answers = list(enq_plain)
    for r in need:
        a = next((x for x in answers if x['seq'] > r['seq']), None)
        if a is None:
            V('echo_missing', 'respond-flagged KEEPALIVE was not answered', r['seq'], **facts0)
            break
        if a['f']['data'] != r['f']['data']:
            V('echo_data_altered', 'KEEPALIVE answered with different data', a['seq'], **facts0)
            break
        answers.remove(a)
    else:
        extra = [a for a in answers if a['seq'] < first_to]
        if extra:
            V('unsolicited_echo', '%d KEEPALIVE frame(s) without the respond flag that answer nothing' % len(extra),
              extra[0]['seq'], **facts0)
    if role != 'client':
        return out
    # --- periodic emission -------------------------------------------------------------------
    conn = next((e for e in h if e['k'] == 'tr' and e.get('what') == 'connect'), None)
    sent = [e for e in h if e['k'] == 'enq' and e['ep'] == 'client' and e['f']['type'] == 'KEEPALIVE' and e['f'].get('respond')
            and e['seq'] < min(end_seq, first_to)]
    stop_t = timeouts[0]['t'] if timeouts else end_t
    if conn is not None:
        expected_n = int((stop_t - conn['t']) / P + 1e-9)
        times = [e['t'] for e in sent]
        if times:
            if times[0] - conn['t'] > P + 1e-9:
                V('first_keepalive_late', 'first KEEPALIVE %.3f s after connect, period %.3f s' % (times[0] - conn['t'], P),
                  sent[0]['seq'], **facts0)
            for a, b, e in zip(times, times[1:], sent[1:]):
                if abs((b - a) - P) > 1e-7:
                    V('period_not_kept', 'gap between KEEPALIVEs %.6f s, period %.6f s' % (b - a, P), e['seq'], **facts0)
                    break
        if len(times) < expected_n - 1:
            V('keepalives_missing', 'only %d KEEPALIVEs in %.3f s at period %.3f s' % (len(times), stop_t - conn['t'], P),
              None, **facts0)
    late = [e for e in h if e['k'] == 'enq' and e['ep'] == 'client' and e['f']['type'] == 'KEEPALIVE' and e['f'].get('respond')
            and e['seq'] > end_seq and e['t'] > end_t + 1e-6]
    # --- timeout safety / detection -------------------------------------------------------------
    if conn is not None:
        rtimes = [conn['t']] + [e['t'] for e in rx]
        # safety: every gap (connect -> first, between receptions, last -> the callback) <= L
        for to in timeouts[:1]:
            before = [t for t in rtimes if t <= to['t']]
            gaps = [b - a for a, b in zip(before, before[1:])] + [to['t'] - before[-1]]
            if max(gaps) <= L + 1e-9:
                V('false_timeout', 'on_keepalive_timeout at t=%.3f although no silence exceeded the lifetime %.3f s (max gap %.3f s)'
                  % (to['t'], L, max(gaps)), to['seq'], **facts0)
        # detection: silence of more than 2L => invoked by then
        pts = rtimes + [end_t]
        for a, b in zip(pts, pts[1:]):
            if b - a > 2 * L + 1e-9:
                if not [to for to in timeouts if to['t'] <= a + 2 * L + 1e-9]:
                    V('timeout_not_detected', 'server silent from t=%.3f for more than two lifetimes (%.3f s) without on_keepalive_timeout'
                      % (a, L), None, **facts0)
                break
    return out


# =============================================================================================
# C16 setup
# =============================================================================================

MIMES = ['application/json', 'text/plain', 'application/octet-stream', 'message/x.rsocket.composite-metadata.v0',
         'x/y', 'custom_defined/custom_type', 'a' * 100, 'b' * 127, 'application/vnd+' + 'z' * 60]
WELLKNOWN = ['APPLICATION_JSON', 'TEXT_PLAIN', 'MESSAGE_RSOCKET_COMPOSITE_METADATA', 'MESSAGE_RSOCKET_ROUTING', 'APPLICATION_CBOR']


def _gen_period_us(rng):
    if rng.random() < 0.1:
        # a day and more (the wire field holds up to 2^31-1 ms, about 24.8 days)
        return rng.choice([86_400_000, 2 * 86_400_000 + 10_800_250, 7 * 86_400_000, 0x7FFFFFFF]) * 1000
    return _pick(rng, [(2, rng.choice([1, 2, 250, 500, 750, 999]) * 1000), (2, rng.choice([1000, 1250, 1500, 2500, 30_000]) * 1000),
                       (2, rng.randint(1, 600_000) * 1000), (1, 600_000_000), (1, rng.randint(1, 2_000_000) * 1000)])


def gen_setup_client(seed, opts=None):
    rng = random.Random(seed ^ 0x5E7)

    def enc():
        r = rng.random()
        if r < 0.4:
            return rng.choice(MIMES)
        if r < 0.7:
            return {'bytes': rng.choice(MIMES).encode().hex()}
        return {'wellknown': rng.choice(WELLKNOWN)}

    ka, lt = _gen_period_us(rng), _gen_period_us(rng)
    cfg = {'keepalive_us': ka, 'lifetime_us': min(max(lt, ka * 3), 0x7FFFFFFF * 1000), 'data_encoding': enc(), 'metadata_encoding': enc(),
           'honor_lease': rng.random() < 0.3, 'fragment': _pick(rng, [(3, None), (1, 64)])}
    if rng.random() < 0.6:
        sp = {}
        if rng.random() < 0.8:
            sp['data'] = bytes(rng.getrandbits(8) for _ in range(rng.choice([0, 1, 10, 300]))).hex()
        if rng.random() < 0.5:
            sp['md'] = bytes(rng.getrandbits(8) for _ in range(rng.choice([0, 1, 10, 100]))).hex()
        cfg['setup_payload'] = sp
    r = rng.random()
    if r < 0.35:
        cfg['connect_delay'] = ['hops', rng.randint(1, 6)]
    elif r < 0.7:
        cfg['connect_delay'] = ['time', _pick(rng, [(1, 0.0005), (1, 0.05), (1, 0.7), (1, 5.0)])]
        # a connect() that outlasts the maximum lifetime legitimately looks like a dead server
        cfg['lifetime_us'] = max(cfg['lifetime_us'], 30_000_000)
    plan = {'exec': 'peer', 'profile': 'setup-client', 'seed': seed, 'role': 'client',
            'framing': _pick(rng, [(3, 'tcp'), (1, 'ws')]), 'loop': {'eps': _pick(rng, [(3, 0.0), (1, 1e-6)])},
            'endpoint': cfg, 'link': {'c2s': {'latency': 0.001, 'seed': 1}, 's2c': {'latency': 0.001, 'seed': 2}},
            'auto': {'respond': 'complete', 'keepalive': 'echo'}, 'script': [], 'nontrivial': True}
    if cfg['honor_lease']:
        plan['script'].append({'at': rng.choice([0.0, 0.002, 1.0]), 'frame': {'t': 'LEASE', 'ttl_ms': 0x7FFFFFFF, 'n': 0x7FFFFFFF}})
        if rng.random() < 0.5:
            # the client announces leases of its own (it subscribes to its lease publisher inside connect())
            cfg['lease_script'] = [{'at': _pick(rng, [(2, 0.0), (1, 0.0001), (1, 0.01), (1, 0.5)]), 'n': rng.randint(1, 9), 'ttl_us': 5_000_000}
                                   for _ in range(rng.randint(1, 3))]
            if rng.random() < 0.5:
                cfg['lease_script'][0]['sync'] = True
    ias = []
    for i in range(rng.randint(0, 4)):
        kind = _pick(rng, [(3, 'rr'), (2, 'fnf'), (2, 'push'), (1, 'stream'), (1, 'channel')])
        ia = {'id': i, 'kind': kind, 'by': 'client', 'at': _pick(rng, [(3, 0.0), (2, 0.0001), (2, round(rng.uniform(0, 1.0), 3))]),
              'hops': rng.randint(0, 4), 'req': {'dlen': rng.randint(8, 60), 'mlen': None}}
        if kind == 'push':
            ia['req'] = {'mlen': rng.randint(8, 30)}
        if kind in ('stream', 'channel'):
            ia['sub'] = {'initial_n': 0x7FFFFFFF}
        if kind == 'channel':
            ia['pub'] = None
        ias.append(ia)
    plan['interactions'] = ias
    plan['horizon'] = 1.5 + (cfg['connect_delay'][1] if cfg.get('connect_delay', ['x'])[0] == 'time' else 0)
    if rng.random() < 0.3:
        # the transport provider itself suspends (it dials: asyncio.open_connection) before it yields the transport
        cfg['provider_delay'] = _pick(rng, [(1, ['hops', rng.randint(1, 6)]), (1, ['time', _pick(rng, [(1, 0.0005), (1, 0.05), (1, 0.7)])])])
        cfg['lifetime_us'] = max(cfg['lifetime_us'], 30_000_000)
        if cfg['provider_delay'][0] == 'time':
            plan['horizon'] += cfg['provider_delay'][1]
    return plan


def gen_setup_server(seed, opts=None):
    rng = random.Random(seed ^ 0x5E8)
    variant = _pick(rng, [(3, 'valid'), (2, 'resume_flag'), (2, 'lease_no_publisher'), (1, 'lease_with_publisher'),
                          (2, 'on_setup_raises'), (2, 'resume_frame'), (1, 'resume_frame_after_setup')])
    cfg = {}
    frame = {'t': 'SETUP', 'keepalive_ms': rng.randint(1, 0x7FFFFFFF), 'lifetime_ms': rng.randint(1, 0x7FFFFFFF),
             'metadata_mime': rng.choice(MIMES), 'data_mime': rng.choice(MIMES)}
    if rng.random() < 0.6:
        frame['data'] = bytes(rng.getrandbits(8) for _ in range(rng.choice([0, 1, 20, 200]))).hex()
    if rng.random() < 0.4:
        frame['md'] = bytes(rng.getrandbits(8) for _ in range(rng.choice([0, 1, 20, 100]))).hex()
    script = []
    if variant == 'resume_flag':
        frame['resume'] = True
        frame['token'] = bytes(rng.getrandbits(8) for _ in range(rng.randint(0, 16))).hex()
    elif variant == 'lease_no_publisher':
        frame['lease'] = True
    elif variant == 'lease_with_publisher':
        frame['lease'] = True
        cfg['lease_script'] = [{'at': 0.05, 'n': 5, 'ttl_us': 1_000_000}]
    elif variant == 'on_setup_raises':
        # the handler fails with all sorts of exceptions, the library's own types included: always REJECTED_SETUP
        cfg['buggify'] = {'on_setup': _pick(rng, [(3, True), (1, 'rsocket_app'), (1, 'rsocket_rejected'), (1, 'oserror'), (1, 'noargs')])}
    if variant == 'resume_frame':
        script.append({'at': 0.0, 'frame': {'t': 'RESUME', 'token': '0102'}})
    else:
        script.append({'at': 0.0, 'frame': frame})
        if variant == 'resume_frame_after_setup':
            script.append({'at': 0.01, 'frame': {'t': 'RESUME', 'token': '0102'}})
    if rng.random() < 0.4:
        # honouring the peer's leases (as a requester) is independent of granting leases (as a responder)
        cfg['honor_lease'] = True
    # a probe request afterwards (served only when the setup was acceptable; never disturbs the verdict)
    plan = {'exec': 'peer', 'profile': 'setup-server', 'seed': seed, 'role': 'server', 'variant': variant,
            'framing': _pick(rng, [(3, 'tcp'), (1, 'ws')]), 'loop': {'eps': 0.0}, 'endpoint': cfg,
            'link': {'c2s': {'latency': 0.001, 'seed': 1, 'chunk': _pick(rng, [(2, 'all'), (1, 1), (1, 3)])},
                     's2c': {'latency': 0.001, 'seed': 2}},
            'script': script, 'interactions': [], 'horizon': 2.0, 'nontrivial': True, 'setup_frame': frame}
    return plan


def _mime_bytes(v):
    if isinstance(v, dict):
        if 'bytes' in v:
            return bytes.fromhex(v['bytes'])
        from rsocket.extensions.mimetypes import WellKnownMimeTypes
        return bytes(getattr(WellKnownMimeTypes, v['wellknown']).value.name)
    if v is None:
        return b'application/json'
    return v.encode()


def oracle_c16(world):
    out = []
    V = lambda cls, msg, seq=None, **f: out.append(Violation('C16', 'C16.' + cls, msg, seq, **f))
    plan = world.plan
    h = world.history
    if plan['profile'] == 'setup-client':
        cfg = plan['endpoint']
        wire = [e for e in h if e['k'] == 'wire' and e['dir'] == 'c2s']
        mark = next((e['seq'] for e in h if e['k'] == 'mark'), float('inf'))
        facts0 = dict(framing=plan.get('framing', 'tcp'), connect=(cfg.get('connect_delay') or ['none'])[0],
                      lease=bool(cfg.get('honor_lease')))
        if not wire:
            V('nothing_sent', 'client never sent anything', None, **facts0)
            return out
        first = wire[0]['f']
        if first['type'] != 'SETUP':
            V('setup_not_first', 'first frame on the connection is %s, not SETUP' % first['type'], wire[0]['seq'],
              first=first['type'], **facts0)
        setups = [e for e in wire if e['f']['type'] == 'SETUP']
        if len(setups) != 1:
            V('setup_count', '%d SETUP frames on one connection' % len(setups), setups[1]['seq'] if len(setups) > 1 else None, **facts0)
        if not setups:
            return out
        f = setups[0]['f']
        checks = []
        if (f['major'], f['minor']) != (1, 0):
            checks.append(('version', (f['major'], f['minor']), (1, 0)))
        for key, us, name in (('keepalive_ms', cfg['keepalive_us'], 'keepalive'), ('lifetime_ms', cfg['lifetime_us'], 'lifetime')):
            if us % 1000 == 0 and f[key] != us // 1000:
                checks.append((name, f[key], us // 1000))
        if f['data_mime'] != _mime_bytes(cfg.get('data_encoding')):
            checks.append(('data_mime', f['data_mime'], _mime_bytes(cfg.get('data_encoding'))))
        if f['metadata_mime'] != _mime_bytes(cfg.get('metadata_encoding')):
            checks.append(('metadata_mime', f['metadata_mime'], _mime_bytes(cfg.get('metadata_encoding'))))
        if f['lease'] != bool(cfg.get('honor_lease')):
            checks.append(('lease', f['lease'], bool(cfg.get('honor_lease'))))
        if f['resume']:
            checks.append(('resume', True, False))
        sp = cfg.get('setup_payload') or {}
        exp_data = bytes.fromhex(sp['data']) if sp.get('data') else b''
        exp_md = bytes.fromhex(sp['md']) if sp.get('md') else b''
        if (f['data'] or b'') != exp_data:
            checks.append(('payload_data', len(f['data'] or b''), len(exp_data)))
        if (f['metadata'] or b'') != exp_md:
            checks.append(('payload_metadata', len(f['metadata'] or b''), len(exp_md)))
        for name, got, exp in checks:
            sub = name in ('keepalive', 'lifetime') and (cfg[name + '_us'] // 1000) % 1000 != 0
            V('setup_field_wrong', 'SETUP states %s=%r, the client was configured with %r' % (name, got, exp), setups[0]['seq'],
              field=name, period_has_subsecond_part=sub, **facts0)
        return out
    # server side ---------------------------------------------------------------------------------
    variant = plan['variant']
    facts0 = dict(variant=variant, framing=plan.get('framing', 'tcp'))
    on_setup = [e for e in h if e['k'] == 'hnd' and e['method'] == 'on_setup']
    errors0 = [e for e in h if e['k'] == 'wire' and e['dir'] == 's2c' and e['f']['type'] == 'ERROR']
    frame = plan['setup_frame']
    expect_code = {'resume_flag': 'UNSUPPORTED_SETUP', 'lease_no_publisher': 'UNSUPPORTED_SETUP',
                   'on_setup_raises': 'REJECTED_SETUP', 'resume_frame': 'REJECTED_RESUME',
                   'resume_frame_after_setup': 'REJECTED_RESUME'}.get(variant)
    if variant in ('valid', 'lease_with_publisher', 'resume_frame_after_setup', 'on_setup_raises'):
        if len(on_setup) != 1:
            V('on_setup_count', 'acceptable SETUP passed to on_setup %d times' % len(on_setup), None, **facts0)
        else:
            e = on_setup[0]
            exp = (frame['data_mime'].encode(), frame['metadata_mime'].encode(),
                   bytes.fromhex(frame.get('data', '')), bytes.fromhex(frame['md']) if frame.get('md') else b'')
            got = (e['data_encoding'], e['metadata_encoding'], e['data'], e['metadata'])
            if got != exp:
                V('on_setup_values', 'on_setup received values different from the SETUP frame', e['seq'], **facts0)
    else:
        if on_setup:
            V('on_setup_for_unsupported', 'on_setup invoked for a SETUP that must be rejected (%s)' % variant, on_setup[0]['seq'], **facts0)
    if expect_code is None:
        if errors0:
            V('error_for_valid_setup', 'ERROR (%s) sent for an acceptable SETUP' % errors0[0]['f'].get('code_name'), errors0[0]['seq'], **facts0)
    else:
        good = [e for e in errors0 if e['f']['sid'] == 0 and e['f'].get('code_name') == expect_code]
        if not good:
            got = [(e['f']['sid'], e['f'].get('code_name')) for e in errors0]
            V('wrong_setup_error', 'expected ERROR[%s] on stream 0, got %s' % (expect_code, got or 'nothing'),
              errors0[0]['seq'] if errors0 else None, expected=expect_code, **facts0)
    return out


# =============================================================================================
# C07 peer-script: protocol-legal peer frame sequences x local actions x one connection event
# =============================================================================================

PEER_GRID_MAXLEN = 4
PEER_GRID_BASE = 6  # size of the largest token alphabet


def peer_grid_size():
    return 12 * sum(PEER_GRID_BASE ** n for n in range(PEER_GRID_MAXLEN + 1))


def _peer_grid_decode(idx):
    """index -> (role, kind, requester_real, [token digits]): every sequence of up to PEER_GRID_MAXLEN peer frames over
    the token alphabet of each (role, model, side) combination exactly once."""
    idx %= peer_grid_size()
    combo, rest = idx % 12, idx // 12
    role = ('client', 'server')[combo % 2]
    kind = ('rr', 'stream', 'channel')[(combo // 2) % 3]
    requester_real = bool(combo // 6)
    n = 0
    while rest >= PEER_GRID_BASE ** n:
        rest -= PEER_GRID_BASE ** n
        n += 1
    digits = []
    for _ in range(n):
        digits.append(rest % PEER_GRID_BASE)
        rest //= PEER_GRID_BASE
    return role, kind, requester_real, digits


def gen_peer_script_grid(seed, opts=None):
    opts = dict(opts or {})
    idx = opts.get('grid_index', 0) * opts.get('grid_stride', 1)
    role, kind, requester_real, digits = _peer_grid_decode(idx)
    plan = gen_peer_script(seed, dict(opts, forced={'role': role, 'kind': kind, 'requester_real': requester_real, 'toks': digits}))
    plan['profile'] = 'peer-script-grid'
    plan['grid_point'] = {'role': role, 'kind': kind, 'requester_real': requester_real, 'toks': digits}
    return plan


def gen_peer_script(seed, opts=None):
    rng = random.Random(seed ^ 0xC07C07)
    forced = (opts or {}).get('forced')
    endpoint_role = _pick(rng, [(3, 'client'), (2, 'server')])  # the REAL endpoint
    kind = _pick(rng, [(2, 'rr'), (3, 'stream'), (4, 'channel')])
    requester_real = rng.random() < 0.6
    toks = None
    if forced:
        endpoint_role, kind, requester_real, toks = forced['role'], forced['kind'], forced['requester_real'], list(forced['toks'])

    def pick_tok(options):
        """seeded choice, or - in the enumeration - the next digit of the grid point (modulo the alphabet at hand)"""
        if toks is None:
            return _pick(rng, options)
        return options[toks.pop(0) % len(options)][1]

    # who opens the stream: the real endpoint (requester_real) or the peer
    if requester_real:
        sid = 1 if endpoint_role == 'client' else 2
    else:
        sid = 2 if endpoint_role == 'client' else 1
    grid = lambda: rng.randint(1, 12) * MS
    plan = {'exec': 'peer', 'profile': 'peer-script', 'seed': seed, 'role': endpoint_role,
            'framing': _pick(rng, [(3, 'tcp'), (1, 'ws')]), 'loop': {'eps': 0.0},
            'endpoint': {'keepalive_ms': 10_000_000, 'fragment': _pick(rng, [(4, None), (1, 64)])},
            'link': {'c2s': {'latency': _pick(rng, [(2, 0.001), (1, 0.0)]), 'seed': 1, 'chunk': _pick(rng, [(3, 'all'), (1, 3), (1, 'frame')])},
                     's2c': {'latency': _pick(rng, [(2, 0.001), (1, 0.0)]), 'seed': 2, 'chunk': _pick(rng, [(3, 'all'), (1, 3), (1, 'frame')])}},
            'auto': {'keepalive': 'echo'}, 'nontrivial': True, 'kind': kind, 'requester_real': requester_real}
    script = []
    if endpoint_role == 'server':
        script.append({'at': 0.0, 'frame': {'t': 'SETUP', 'keepalive_ms': 10_000_000, 'lifetime_ms': 20_000_000}})
    n_frames = rng.randint(0, 6)
    if forced:
        n_frames = len(toks)

    def payload_spec(idx, nxt=True, complete=False):
        # (now and then an element whose payload is empty: legal, NEXT is set all the same)
        d = app.content(0, 'r' if requester_real else 'c', idx, 'D', _pick(rng, [(6, rng.randint(1, 40)), (1, 0)])) if nxt else b''
        return {'t': 'PAYLOAD', 'sid': sid, 'data': d.hex(), 'next': nxt, 'complete': complete}

    frames = []
    idx = 0
    if requester_real:
        # the peer plays responder
        terminal_sent = False
        for _ in range(n_frames):
            if kind == 'rr':
                if terminal_sent:
                    break
                tok = pick_tok([(3, 'next_complete'), (2, 'next'), (1, 'complete'), (2, 'error')])
            elif kind == 'stream':
                if terminal_sent:
                    break
                tok = pick_tok([(4, 'next'), (1, 'next_complete'), (1, 'complete'), (1, 'error')])
            else:
                tok = pick_tok([(4, 'next'), (1, 'next_complete'), (1, 'complete'), (1, 'error'), (2, 'request_n'), (1, 'cancel')])
                if terminal_sent and tok in ('next', 'next_complete', 'complete', 'error'):
                    tok = 'request_n'
            if tok == 'next':
                frames.append(payload_spec(idx))
                idx += 1
                if kind == 'rr':
                    terminal_sent = True
            elif tok == 'next_complete':
                frames.append(payload_spec(idx, True, True))
                idx += 1
                terminal_sent = True
            elif tok == 'complete':
                frames.append(payload_spec(idx, False, True))
                terminal_sent = True
            elif tok == 'error':
                frames.append({'t': 'ERROR', 'sid': sid, 'code': 'APPLICATION_ERROR', 'data': b'peer-error'.hex()})
                terminal_sent = True
            elif tok == 'request_n':
                frames.append({'t': 'REQUEST_N', 'sid': sid, 'n': rng.randint(1, 5)})
            elif tok == 'cancel':
                frames.append({'t': 'CANCEL', 'sid': sid})
        ia = {'id': 0, 'kind': kind, 'by': endpoint_role, 'at': 0.0, 'req': {'dlen': rng.randint(8, 80), 'mlen': None}}
        if kind in ('stream', 'channel'):
            ia['sub'] = {'initial_n': _pick(rng, [(1, 1), (1, 2), (1, 0x7FFFFFFF)]), 'refill': _pick(rng, [(1, [1]), (1, [0x7FFFFFFF])])}
            if rng.random() < 0.3:
                ia['sub']['cancel_after'] = rng.randint(1, 3)
            elif rng.random() < 0.3:
                ia['sub']['cancel_at'] = grid()
                ia['sub']['cancel_hops'] = rng.randint(0, 3)
        if kind == 'rr' and rng.random() < 0.4:
            ia['cancel'] = {'at': grid(), 'hops': rng.randint(0, 3)}
        if kind == 'channel':
            ia['pub'] = _pick(rng, [(1, None), (3, {'src': _pick(rng, [(2, 'manual'), (1, 'gen'), (1, 'agen')]), 'count': rng.randint(0, 4),
                                                      'lens': [[rng.randint(1, 30), None]], 'end': _pick(rng, [(1, 'flag'), (1, 'separate')]),
                                                      'start_idx': 1, **({'error_at': rng.randint(0, 3)} if rng.random() < 0.25 else {})})])
        plan['interactions'] = [ia]
        t0 = 2 * MS
    else:
        # the peer plays requester: request frame first, then legal requester frames
        t_type = {'rr': 'REQUEST_RESPONSE', 'stream': 'REQUEST_STREAM', 'channel': 'REQUEST_CHANNEL'}[kind]
        req_complete = kind == 'channel' and rng.random() < 0.3
        script.append({'at': 1 * MS, 'frame': {'t': t_type, 'sid': sid, 'n': rng.randint(1, 4), 'complete': req_complete,
                                               'data': app.content(0, 'q', 0, 'D', 20).hex()}})
        done_sending = req_complete
        cancelled = False
        idx = 1
        for _ in range(n_frames):
            if cancelled:
                break
            opts_ = [(3, 'request_n'), (1, 'cancel')] if kind != 'rr' else [(1, 'cancel')]
            if kind == 'channel' and not done_sending:
                opts_ += [(3, 'next'), (1, 'next_complete'), (1, 'complete'), (1, 'error')]
            tok = pick_tok(opts_)
            if tok == 'request_n':
                frames.append({'t': 'REQUEST_N', 'sid': sid, 'n': rng.randint(1, 5)})
            elif tok == 'cancel':
                frames.append({'t': 'CANCEL', 'sid': sid})
                cancelled = True
            elif tok == 'next':
                frames.append(payload_spec(idx))
                idx += 1
            elif tok == 'next_complete':
                frames.append(payload_spec(idx, True, True))
                idx += 1
                done_sending = True
            elif tok == 'complete':
                frames.append(payload_spec(idx, False, True))
                done_sending = True
            elif tok == 'error':
                frames.append({'t': 'ERROR', 'sid': sid, 'code': 'APPLICATION_ERROR', 'data': b'peer-error'.hex()})
                done_sending = True
                cancelled = True
        ia = {'id': 0, 'kind': kind, 'by': 'peer', 'sid': sid}
        if kind == 'rr':
            ia['resp'] = {'mode': _pick(rng, [(2, 'now'), (2, 'delay'), (1, 'never'), (1, 'fail'), (1, 'raise')]),
                          'delay': grid(), 'dlen': rng.randint(1, 60), 'mlen': None}
        else:
            ia['resp'] = {'src': _pick(rng, [(2, 'manual'), (1, 'gen'), (1, 'agen')]), 'count': rng.randint(0, 5),
                          'lens': [[rng.randint(1, 30), None]], 'end': _pick(rng, [(1, 'flag'), (1, 'separate')])}
            if rng.random() < 0.2:
                ia['resp']['error_at'] = rng.randint(0, 3)
            if rng.random() < 0.3:
                ia['resp']['pacing'] = MS
            if kind == 'channel':
                if rng.random() < 0.15:
                    ia['resp'].pop('src')
                ia['resp']['sub'] = _pick(rng, [(1, None), (4, {'initial_n': rng.randint(1, 3), 'refill': [1],
                                                                **({'cancel_after': rng.randint(1, 2)} if rng.random() < 0.25 else {})})])
        plan['interactions'] = [ia]
        t0 = 2 * MS
    for f in frames:
        script.append({'at': t0 + grid(), 'hops': rng.randint(0, 3), 'frame': f})
    # keep the peer's frames in their generated (legal) order
    times = sorted(s['at'] for s in script[len(script) - len(frames):])
    for s, t in zip(script[len(script) - len(frames):], times):
        s['at'] = t
        s['hops'] = 0
    if rng.random() < 0.5:
        script.append({'at': t0 + grid(), 'hops': rng.randint(0, 3), 'conn': _pick(rng, [(2, 'eof'), (2, 'reset')])})
    elif rng.random() < 0.4:
        script.append({'at': t0 + grid(), 'hops': rng.randint(0, 3), 'act': {'what': 'close'}})
    plan['script'] = sorted(script, key=lambda s: s['at'])
    plan['horizon'] = 0.5
    return plan


def oracle_c07_peer(world):
    from .oracles import Analysis, oracle_c07
    return oracle_c07(Analysis(world))
