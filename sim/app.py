"""Scripted, recording application layer: handlers, publishers, subscribers.

Every callback the library makes into the application, and every action the application takes,
is recorded in world.history ('hnd', 'sub', 'pub', 'fut', 'act' events).
"""
import asyncio
import hashlib
import re
from datetime import timedelta

TAG_LEN = 8
_TAG_RE = re.compile(rb'^[DM](\d\d)([a-z])(\d\d\d):')


def content(iid, direction, idx, part, length):
    """Deterministic tagged bytes. part: 'D' data / 'M' metadata."""
    if length is None:
        return None
    tag = ('%s%02d%s%03d:' % (part, iid % 100, direction, idx % 1000)).encode()
    if length <= len(tag):
        return tag[:length]
    need = length - len(tag)
    seed = hashlib.blake2b(tag, digest_size=32).digest()
    return tag + (seed * (need // 32 + 1))[:need]


def parse_tag(payload):
    for part in (payload.data, payload.metadata):
        if part:
            m = _TAG_RE.match(bytes(part[:TAG_LEN]))
            if m:
                return int(m.group(1)), m.group(2).decode(), int(m.group(3))
    return None


def nb(x):
    return bytes(x) if x else b''


def make_payload(iid, direction, idx, dlen, mlen):
    from rsocket.payload import Payload
    return Payload(content(iid, direction, idx, 'D', dlen), content(iid, direction, idx, 'M', mlen))


def elem_lens(script, idx):
    lens = script.get('lens')
    if lens:
        return lens[idx % len(lens)]
    return (script.get('dlen', 16), script.get('mlen'))


class AppError(Exception):
    pass


class _OddError(Exception):
    def __str__(self):
        return 'odd error \u2603 with non-ascii text'


def make_exception(how, text):
    """Application failures come in many shapes; the library must contain all of them."""
    if how is True or how == 'app':
        return AppError(text)
    if how == 'keyerror_int':
        return KeyError(404)
    if how == 'oserror':
        return FileNotFoundError(2, 'No such file or directory', '/nonexistent/' + text)
    if how == 'value_dict':
        return ValueError({'reason': text, 'code': 7})
    if how == 'noargs':
        return RuntimeError()
    if how == 'odd':
        return _OddError(b'\xff\xfe', 3.5)
    if how == 'bytes_arg':
        return LookupError(b'raw bytes \xff')
    if how == 'rsocket_app':
        from rsocket.exceptions import RSocketApplicationError
        return RSocketApplicationError(text)
    if how == 'rsocket_rejected':
        from rsocket.exceptions import RSocketProtocolError
        from rsocket.error_codes import ErrorCode
        return RSocketProtocolError(ErrorCode.REJECTED, data=text)
    return AppError(text)


# ------------------------------------------------------------------------------------------
# subscribers
# ------------------------------------------------------------------------------------------

class RecSubscriber:
    """Recording subscriber with a scripted credit / cancel policy.

    script: {initial_n, refill: [n...], refill_via: 'sync'|'soon', in_subscribe: bool,
             cancel_after: k|None, cancel_at: dt|None, extra: [[dt, n]...]}
    """

    def __init__(self, world, ep, iid, role, script, requester_side):
        from reactivestreams.subscriber import Subscriber
        self.world = world
        self.ep = ep
        self.iid = iid
        self.role = role  # whose subscriber: 'requester' or 'responder'
        self.script = script or {}
        self.requester_side = requester_side
        self.subscription = None
        self.received = 0
        self.granted = self.script.get('initial_n', 0x7FFFFFFF) if requester_side else 0
        self.refill_idx = 0
        self.terminal = False
        self.cancelled = False
        self._timers = []

    # reactivestreams.Subscriber interface (duck-typed; registered as virtual subclass below)
    def on_subscribe(self, subscription):
        self.subscription = subscription
        self._rec('on_subscribe')
        sc = self.script
        if not self.requester_side:
            n = sc.get('initial_n', 0x7FFFFFFF)
            mode = sc.get('initial_via', 'sync')
            if mode == 'sync':
                self.grant(n)
            elif mode == 'soon':
                self.world.loop.call_soon(self.grant, n)
            else:
                self._timers.append(self.world.loop.call_later(sc.get('initial_delay', 0.001), self.grant, n))
        elif sc.get('in_subscribe'):
            self.grant(sc['in_subscribe'])
        if sc.get('cancel_in_subscribe'):
            self.cancel()
            return
        if sc.get('cancel_at') is not None:
            self._timers.append(self.world.loop.call_later(sc['cancel_at'], self._cancel_hop))
        if sc.get('cancel_at_iter') is not None:
            self.world.at_iter(sc['cancel_at_iter'], self.cancel)
        for dt, n in sc.get('extra', ()):
            self._timers.append(self.world.loop.call_later(dt, self.grant, n))

    def _cancel_hop(self):
        self.world.loop.call_after_hops(self.script.get('cancel_hops', 0), self.cancel)

    def grant(self, n):
        if self.terminal or self.cancelled or self.subscription is None:
            return
        self.world.rec('act', ep=self.ep, what='credit', iid=self.iid, role=self.role, n=n)
        self.granted += n
        self.subscription.request(n)

    def cancel(self):
        if self.terminal or self.cancelled or self.subscription is None:
            return
        self.cancelled = True
        self.world.rec('act', ep=self.ep, what='cancel', iid=self.iid, role=self.role)
        self.subscription.cancel()

    def on_next(self, value, is_complete=False):
        data, md = nb(value.data), nb(value.metadata)
        self._rec('on_next', data=data, metadata=md, complete=bool(is_complete))
        if data or md:
            self.received += 1
        self._maybe_raise('on_next', self.received)
        if is_complete:
            self.terminal = True
            return
        sc = self.script
        if sc.get('cancel_after') is not None and self.received == sc['cancel_after']:
            self.cancel()
            return
        if self.received >= self.granted and not self.cancelled:
            refill = sc.get('refill') or [0x7FFFFFFF]
            n = refill[self.refill_idx % len(refill)]
            self.refill_idx += 1
            if sc.get('refill_via', 'sync') == 'sync':
                self.grant(n)
            else:
                self.world.loop.call_soon(self.grant, n)

    def on_complete(self):
        self._rec('on_complete')
        self.terminal = True
        self._maybe_raise('on_complete')

    def _maybe_raise(self, cb, count=None):
        """buggify: the application's subscriber callback fails."""
        r = self.script.get('raise_in')
        if r and r['cb'] == cb and (cb != 'on_next' or count == r.get('at', 1)):
            self.world.fault_fired('buggify_sub_' + cb)
            raise AppError('subscriber %s of %d failed' % (cb, self.iid))

    def on_error(self, exception):
        self._rec('on_error', err='%s: %s' % (type(exception).__name__, str(exception)[:120]))
        self.terminal = True
        self._maybe_raise('on_error') if not self.script.get('retry_on_error') else None
        retry = self.script.get('retry_on_error')
        if retry is not None:
            # an application that falls back / retries from inside the error callback
            start_interaction(self.world, self.ep, retry)

    def _rec(self, cb, **kw):
        self.world.rec('sub', ep=self.ep, iid=self.iid, role=self.role, cb=cb, **kw)


# ------------------------------------------------------------------------------------------
# publishers
# ------------------------------------------------------------------------------------------

class ManualPublisher:
    """Hand-written recording publisher honouring request(n).

    script: {count, lens, pacing, end: 'flag'|'separate'|'empty', error_at}
    """

    def __init__(self, world, ep, iid, role, direction, script):
        self.world = world
        self.ep = ep
        self.iid = iid
        self.role = role
        self.direction = direction
        self.script = script
        self.subscriber = None
        self.credit = 0
        self.idx = script.get('start_idx', 0)
        self.count = script.get('count', 0) + self.idx
        self.done = False
        self.cancelled = False
        self._scheduled = False

    def subscribe(self, subscriber):
        self.subscriber = subscriber
        self._rec('subscribe')
        if self.script.get('bug_subscribe'):
            self.world.fault_fired('buggify_publisher_subscribe')
            raise AppError('buggify publisher.subscribe')
        subscriber.on_subscribe(self)

    # Subscription
    def request(self, n):
        self._rec('request', n=n)
        if self.script.get('bug_request'):
            self.world.fault_fired('buggify_publisher_request')
            raise AppError('buggify subscription.request')
        if self.done or self.cancelled:
            return
        self.credit += n
        self._kick()

    def cancel(self):
        self._rec('cancel')
        self.cancelled = True

    def _kick(self):
        if self._scheduled:
            return
        pacing = self.script.get('pacing', 0)
        self._scheduled = True
        if pacing == 'sync':
            self._scheduled = False
            self._emit_loop(sync=True)
        elif pacing:
            self.world.loop.call_later(pacing, self._emit_one)
        else:
            self.world.loop.call_soon(self._emit_one)

    def _emit_loop(self, sync):
        while not (self.done or self.cancelled) and self._step():
            pass

    def _emit_one(self):
        self._scheduled = False
        if self.done or self.cancelled:
            return
        if self._step():
            self._kick()

    def _step(self):
        """Emit one signal if allowed. Returns True if more may follow now."""
        sc = self.script
        end = sc.get('end', 'separate')
        if sc.get('error_at') is not None and self.idx == sc['error_at'] + sc.get('start_idx', 0):
            self.done = True
            self._rec('error')
            self.subscriber.on_error(AppError('E%02d' % self.iid))
            return False
        if self.idx >= self.count:
            self.done = True
            self._rec('complete')
            self.subscriber.on_complete()
            return False
        if self.credit <= 0:
            return False
        self.credit -= 1
        i = self.idx
        self.idx += 1
        dlen, mlen = elem_lens(sc, i)
        last = (self.idx >= self.count) and end == 'flag'
        self._rec('emit', idx=i)
        if last:
            self.done = True
        self.subscriber.on_next(make_payload(self.iid, self.direction, i, dlen, mlen), last)
        return not last

    def _rec(self, cb, **kw):
        self.world.rec('pub', ep=self.ep, iid=self.iid, role=self.role, cb=cb, src='manual', **kw)


class _PubProxy:
    """Wraps a library publisher to record subscribe/request/cancel as the library calls them."""

    def __init__(self, world, ep, iid, role, src, inner):
        self.world, self.ep, self.iid, self.role, self.src, self.inner = world, ep, iid, role, src, inner
        self._sub = None

    def subscribe(self, subscriber):
        self._rec('subscribe')
        proxy = self

        class SubProxy:
            def on_subscribe(self_, subscription):
                proxy._subscription = subscription
                subscriber.on_subscribe(proxy)

            def on_next(self_, value, is_complete=False):
                subscriber.on_next(value, is_complete)

            def on_complete(self_):
                subscriber.on_complete()

            def on_error(self_, exc):
                proxy._rec('error_signal', err=str(exc)[:80])
                subscriber.on_error(exc)

        self.inner.subscribe(SubProxy())

    def request(self, n):
        self._rec('request', n=n)
        self._subscription.request(n)

    def cancel(self):
        self._rec('cancel')
        self._subscription.cancel()

    def dispose(self):
        self._rec('dispose')
        if hasattr(self.inner, 'dispose'):
            self.inner.dispose()

    def _rec(self, cb, **kw):
        self.world.rec('pub', ep=self.ep, iid=self.iid, role=self.role, cb=cb, src=self.src, **kw)


def make_publisher(world, ep, iid, role, direction, script):
    """Build the publisher described by script['src'] ('gen' | 'agen' | 'manual')."""
    src = script.get('src', 'gen')
    if src == 'manual':
        return ManualPublisher(world, ep, iid, role, direction, script)
    from rsocket.streams.stream_from_generator import StreamFromGenerator
    from rsocket.streams.stream_from_async_generator import StreamFromAsyncGenerator
    start = script.get('start_idx', 0)
    count = script.get('count', 0)
    end = script.get('end', 'separate')
    error_at = script.get('error_at')

    def rec(cb, **kw):
        world.rec('pub', ep=ep, iid=iid, role=role, cb=cb, src=src, **kw)

    if src in ('lib-empty', 'lib-error'):
        # the library's ready-made publishers: nothing but a completion / nothing but an error
        from rsocket.streams.empty_stream import EmptyStream
        from rsocket.streams.error_stream import ErrorStream
        return _PubProxy(world, ep, iid, role, src, EmptyStream() if src == 'lib-empty' else ErrorStream(AppError('E%02d' % iid)))

    def items():
        for k in range(count):
            if error_at is not None and k == error_at:
                rec('error')
                raise AppError('E%02d' % iid)
            i = start + k
            dlen, mlen = elem_lens(script, i)
            rec('emit', idx=i)
            yield make_payload(iid, direction, i, dlen, mlen), (k == count - 1 and end == 'flag')
        if error_at is not None and error_at >= count:
            rec('error')
            raise AppError('E%02d' % iid)
        rec('exhausted')

    pacing = timedelta(seconds=script.get('pacing', 0) or 0)

    def on_cancel():
        rec('on_cancel')
        if script.get('on_cancel_raises'):
            # the application's own callback fails at cancel time
            world.fault_fired('buggify_on_cancel')
            raise AppError('on_cancel of %d failed' % iid)

    kwargs = dict(delay_between_messages=pacing, on_cancel=on_cancel,
                  on_complete=lambda: rec('on_complete'))
    if src == 'gen':
        pub = StreamFromGenerator(items, **kwargs)
    else:
        adelay = script.get('agen_delay', 0)

        async def aitems():
            for item in items():
                if adelay:
                    await asyncio.sleep(adelay)
                yield item

        pub = StreamFromAsyncGenerator(aitems, **kwargs)
    return _PubProxy(world, ep, iid, role, src, pub)


def _register_virtual():
    from reactivestreams.subscriber import Subscriber
    from reactivestreams.publisher import Publisher
    from reactivestreams.subscription import Subscription
    from rsocket.disposable import Disposable
    Subscriber.register(RecSubscriber)
    Publisher.register(ManualPublisher)
    Subscription.register(ManualPublisher)
    Publisher.register(_PubProxy)
    Subscription.register(_PubProxy)
    Disposable.register(_PubProxy)


# ------------------------------------------------------------------------------------------
# handler
# ------------------------------------------------------------------------------------------

def make_handler_class():
    from rsocket.request_handler import BaseRequestHandler
    from rsocket.payload import Payload

    class SimHandler(BaseRequestHandler):
        """Scripted responder. `scripts` maps interaction id -> interaction dict of the plan."""

        def __init__(self, world, ep, scripts, buggify=None):
            self.world = world
            self.ep = ep
            self.scripts = scripts
            self.buggify = buggify or {}
            self.futures = {}

        def _rec(self, method, payload=None, **kw):
            if payload is not None:
                kw['data'] = nb(payload.data)
                kw['metadata'] = nb(payload.metadata)
            return self.world.rec('hnd', ep=self.ep, method=method, **kw)

        def _lookup(self, method, payload):
            tag = parse_tag(payload)
            iid = tag[0] if tag else None
            if iid is None and not nb(payload.data) and not nb(payload.metadata):
                # an empty request payload carries no tag: the plan has at most one such interaction
                iid = next((i for i, ia in self.scripts.items() if ia.get('empty_req')), None)
            ev = self._rec(method, payload, iid=iid)
            ia = self.scripts.get(iid) if iid is not None else None
            if ia is None:
                ev['unknown'] = True
            return iid, ia

        async def _hdelay(self, resp):
            hd = resp.get('hdelay')
            if hd:
                if hd[0] == 'hops':
                    for _ in range(hd[1]):
                        await asyncio.sleep(0)
                else:
                    await asyncio.sleep(hd[1])

        def _bug(self, point):
            how = self.buggify.get(point)
            if how:
                self.world.fault_fired('buggify_' + point)
                raise make_exception(how, 'buggify ' + point)

        async def on_setup(self, data_encoding, metadata_encoding, payload):
            self._rec('on_setup', payload, data_encoding=nb(data_encoding),
                      metadata_encoding=nb(metadata_encoding))
            self._bug('on_setup')

        async def on_metadata_push(self, payload):
            self._rec('on_metadata_push', payload)
            self._bug('on_metadata_push')

        async def request_fire_and_forget(self, payload):
            iid, ia = self._lookup('request_fire_and_forget', payload)
            self._bug('request_fire_and_forget')
            if ia is not None and ia.get('hslow'):
                await asyncio.sleep(ia['hslow'])  # a handler that takes its time: the receiver lags behind the wire

        async def request_response(self, payload):
            iid, ia = self._lookup('request_response', payload)
            self._bug('request_response')
            if ia is None:
                raise AppError('unknown request')
            resp = ia.get('resp', {})
            await self._hdelay(resp)
            mode = resp.get('mode', 'now')
            loop = self.world.loop
            fut = loop.create_future()
            world, ep = self.world, self.ep

            def done(f):
                if f.cancelled():
                    st = 'cancelled'
                elif f.exception() is not None:
                    st = 'exception'
                else:
                    st = 'result'
                world.rec('fut', ep=ep, iid=iid, role='responder', state=st)

            fut.add_done_callback(done)

            def resolve():
                if fut.done():
                    return
                if mode == 'fail':
                    world.rec('pub', ep=ep, iid=iid, role='responder', cb='resolve_error', src='future')
                    fut.set_exception(AppError('E%02d' % iid))
                else:
                    world.rec('pub', ep=ep, iid=iid, role='responder', cb='emit', idx=0, src='future')
                    fut.set_result(make_payload(iid, 'r', 0, resp.get('dlen', 16), resp.get('mlen')))

            if mode == 'raise':
                raise AppError('E%02d' % iid)
            if mode == 'never':
                pass
            elif resp.get('delay'):
                loop.call_later(resp['delay'], resolve)
            elif resp.get('hops'):
                loop.call_after_hops(resp['hops'], resolve)
            else:
                resolve()
            return fut

        async def request_stream(self, payload):
            iid, ia = self._lookup('request_stream', payload)
            self._bug('request_stream')
            if ia is None:
                raise AppError('unknown request')
            resp = ia.get('resp', {})
            await self._hdelay(resp)
            if resp.get('mode') == 'raise':
                raise AppError('E%02d' % iid)
            return make_publisher(self.world, self.ep, iid, 'responder', 'r', resp)

        async def request_channel(self, payload):
            iid, ia = self._lookup('request_channel', payload)
            self._bug('request_channel')
            if ia is None:
                raise AppError('unknown request')
            resp = ia.get('resp', {})
            await self._hdelay(resp)
            if resp.get('mode') == 'raise':
                raise AppError('E%02d' % iid)
            pub = None
            if resp.get('src') is not None:
                pub = make_publisher(self.world, self.ep, iid, 'responder', 'r', resp)
            sub = None
            if resp.get('sub') is not None:
                sub = RecSubscriber(self.world, self.ep, iid, 'responder', resp['sub'], requester_side=False)
            return pub, sub

        async def on_error(self, error_code, payload):
            self._rec('on_error', payload, code=int(error_code))

        async def on_connection_error(self, rsocket, exception):
            self._rec('on_connection_error', err=type(exception).__name__)
            cb = getattr(self, 'on_connection_error_hook', None)
            if cb is not None:
                await cb(rsocket)

        async def on_close(self, rsocket, exception=None):
            self._rec('on_close')
            self._bug('on_close')
            cb = getattr(self, 'on_close_hook', None)
            if cb is not None:
                await cb(rsocket)
            mode = getattr(self, 'on_close_mode', None)
            try:
                if mode:
                    # an application's close handler may take its time (or fail)
                    if mode[0] == 'sleep':
                        await asyncio.sleep(mode[1])
                    elif mode[0] == 'hops':
                        for _ in range(mode[1]):
                            await asyncio.sleep(0)
                    elif mode[0] == 'raise':
                        raise AppError('on_close failed')
            finally:
                self.world.rec('hnd', ep=self.ep, method='on_close_returned')

        async def on_keepalive_timeout(self, time_since_last_keepalive, rsocket):
            self._rec('on_keepalive_timeout', since=time_since_last_keepalive.total_seconds())
            cb = getattr(self, 'on_keepalive_timeout_hook', None)
            if cb is not None:
                await cb(rsocket)

    _register_virtual()
    return SimHandler


_handler_class = None


def handler_class():
    global _handler_class
    if _handler_class is None:
        _handler_class = make_handler_class()
    return _handler_class


# ------------------------------------------------------------------------------------------
# requester actions
# ------------------------------------------------------------------------------------------

def _cancel_sent_future(world, ep_name, ia, fut):
    """The application gives up waiting for 'sent' (e.g. wait_for timed out): it cancels the awaitable it was handed."""
    cancel = ia.get('cancel')
    if cancel is None:
        return

    def do_cancel():
        if not fut.done():
            world.rec('act', ep=ep_name, what='cancel_sent_future', iid=ia['id'])
            fut.cancel()

    world.loop.call_at(world.loop.time() + cancel.get('at', 0.0), lambda: world.loop.call_after_hops(cancel.get('hops', 0), do_cancel))


def start_interaction(world, ep_name, ia):
    """Perform the requester-side API call for interaction `ia` on endpoint `ep_name`."""
    from rsocket.payload import Payload
    ep = world.endpoints[ep_name]
    iid = ia['id']
    kind = ia['kind']
    req = ia.get('req', {})
    world.rec('act', ep=ep_name, what='request', iid=iid, kind=kind)
    try:
        if kind == 'push':
            md = content(iid, 'q', 0, 'M', max(TAG_LEN, req.get('mlen') or TAG_LEN))
            fut = ep.metadata_push(md)
            fut.add_done_callback(lambda f: world.rec('fut', ep=ep_name, iid=iid, role='requester',
                                                      state='cancelled' if f.cancelled() else 'sent'))
            _cancel_sent_future(world, ep_name, ia, fut)
            return
        payload = make_payload(iid, 'q', 0, req.get('dlen', 16), req.get('mlen'))
        if kind == 'fnf':
            fut = ep.fire_and_forget(payload)
            fut.add_done_callback(lambda f: world.rec('fut', ep=ep_name, iid=iid, role='requester',
                                                      state='cancelled' if f.cancelled() else 'sent'))
            _cancel_sent_future(world, ep_name, ia, fut)
        elif kind == 'rr':
            fut = ep.request_response(payload)

            def done(f):
                if f.cancelled():
                    world.rec('fut', ep=ep_name, iid=iid, role='requester', state='cancelled')
                elif f.exception() is not None:
                    e = f.exception()
                    world.rec('fut', ep=ep_name, iid=iid, role='requester', state='exception',
                              err='%s: %s' % (type(e).__name__, str(e)[:120]))
                else:
                    p = f.result()
                    world.rec('fut', ep=ep_name, iid=iid, role='requester', state='result',
                              data=nb(p.data), metadata=nb(p.metadata))

            fut.add_done_callback(done)
            cancel = ia.get('cancel')
            if cancel is not None:
                def do_cancel():
                    if not fut.done():
                        world.rec('act', ep=ep_name, what='cancel', iid=iid, role='requester')
                        fut.cancel()

                def cancel_hop():
                    world.loop.call_after_hops(cancel.get('hops', 0), do_cancel)

                if cancel.get('at_iter') is not None:
                    world.at_iter(cancel['at_iter'], do_cancel)
                elif cancel.get('at') is not None:
                    world.loop.call_later(cancel['at'], cancel_hop)
                else:
                    cancel_hop()
            world.rr_futures[iid] = fut
        elif kind in ('stream', 'channel') and ia.get('api') == 'awaitable':
            # through AwaitableRSocket / CollectorSubscriber: the awaited list is replayed as signals
            from rsocket.awaitable.awaitable_rsocket import AwaitableRSocket
            limit = ia.get('sub', {}).get('initial_n') or 0x7FFFFFFF
            cpub = None
            if kind == 'channel' and ia.get('pub') is not None:
                cpub = make_publisher(world, ep_name, iid, 'requester', 'c', ia['pub'])

            took_n = []  # the collector cancelled after limit_count elements

            async def run_awaitable():
                aw = AwaitableRSocket(ep)
                rec = lambda cb, **kw: world.rec('sub', ep=ep_name, iid=iid, role='requester', cb=cb, **kw)
                rec('on_subscribe')
                try:
                    if kind == 'stream' and ia.get('limit_count'):
                        # CollectorSubscriber used directly: take the first limit_count elements, then cancel
                        from rsocket.awaitable.collector_subscriber import CollectorSubscriber

                        class RecCollector(CollectorSubscriber):
                            def on_subscribe(self_, subscription):
                                class Proxy:
                                    def request(p, n):
                                        subscription.request(n)

                                    def cancel(p):
                                        world.rec('act', ep=ep_name, what='cancel', iid=iid, role='requester')
                                        took_n.append(True)
                                        subscription.cancel()

                                super().on_subscribe(Proxy())

                        collector = RecCollector(limit, ia['limit_count'])
                        ep.request_stream(payload).initial_request_n(limit).subscribe(collector)
                        values = await collector.run()
                    elif kind == 'stream':
                        values = await aw.request_stream(payload, limit_rate=limit)
                    else:
                        values = await aw.request_channel(payload, publisher=cpub, limit_rate=limit)
                except Exception as e:
                    rec('on_error', err='%s: %s' % (type(e).__name__, str(e)[:120]))
                    return
                for v in values:
                    if nb(v.data) or nb(v.metadata):
                        rec('on_next', data=nb(v.data), metadata=nb(v.metadata), complete=False)
                if not took_n:
                    rec('on_complete')

            world.loop.create_task(run_awaitable())
        elif kind in ('stream', 'channel'):
            subscript = ia.get('sub', {})
            sub = RecSubscriber(world, ep_name, iid, 'requester', subscript, requester_side=True)
            world.subscribers[iid] = sub
            if kind == 'stream':
                pub = ep.request_stream(payload)
            else:
                cpub = None
                if ia.get('pub') is not None:
                    cpub = make_publisher(world, ep_name, iid, 'requester', 'c', ia['pub'])
                pub = ep.request_channel(payload, cpub)
            n = subscript.get('initial_n')
            if n is not None:
                pub = pub.initial_request_n(n)
            pub.subscribe(sub)
    except Exception as e:  # the API call itself failed (e.g. allocation failure, queue full)
        world.rec('act', ep=ep_name, what='request_failed', iid=iid, err='%s: %s' % (type(e).__name__, str(e)[:100]))
