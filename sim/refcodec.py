"""Independent reference codec for RSocket 1.0 frames (shares no code with rsocket.frame).

decode(body) -> dict  (raises RefDecodeError for anything it cannot decode)
encode(**fields) -> bytes (frame body without the 3-byte length prefix)
"""
import struct

SETUP, LEASE, KEEPALIVE, REQUEST_RESPONSE, REQUEST_FNF, REQUEST_STREAM, REQUEST_CHANNEL, \
    REQUEST_N, CANCEL, PAYLOAD, ERROR, METADATA_PUSH, RESUME, RESUME_OK = range(1, 15)
EXT = 0x3F

NAMES = {1: 'SETUP', 2: 'LEASE', 3: 'KEEPALIVE', 4: 'REQUEST_RESPONSE', 5: 'REQUEST_FNF',
         6: 'REQUEST_STREAM', 7: 'REQUEST_CHANNEL', 8: 'REQUEST_N', 9: 'CANCEL', 10: 'PAYLOAD',
         11: 'ERROR', 12: 'METADATA_PUSH', 13: 'RESUME', 14: 'RESUME_OK', 0x3F: 'EXT'}
TYPE_BY_NAME = {v: k for k, v in NAMES.items()}

REQUEST_TYPES = ('REQUEST_RESPONSE', 'REQUEST_FNF', 'REQUEST_STREAM', 'REQUEST_CHANNEL')
FRAGMENTABLE = REQUEST_TYPES + ('PAYLOAD',)

F_IGNORE = 0x200
F_METADATA = 0x100
F_FOLLOWS = 0x80  # also RESUME (setup) and RESPOND (keepalive)
F_COMPLETE = 0x40  # also LEASE (setup)
F_NEXT = 0x20

ERR = {'INVALID_SETUP': 1, 'UNSUPPORTED_SETUP': 2, 'REJECTED_SETUP': 3, 'REJECTED_RESUME': 4,
       'CONNECTION_ERROR': 0x101, 'CONNECTION_CLOSE': 0x102, 'APPLICATION_ERROR': 0x201,
       'REJECTED': 0x202, 'CANCELED': 0x203, 'INVALID': 0x204}
ERR_NAME = {v: k for k, v in ERR.items()}


class RefDecodeError(Exception):
    pass


def _need(buf, off, n):
    if len(buf) < off + n:
        raise RefDecodeError('truncated: need %d bytes at %d, have %d' % (n, off, len(buf)))


def _split_md(buf, off, has_md):
    """metadata (24-bit length prefixed when flag set) then data to the end."""
    md = None
    if has_md:
        _need(buf, off, 3)
        mlen = int.from_bytes(buf[off:off + 3], 'big')
        off += 3
        _need(buf, off, mlen)
        md = bytes(buf[off:off + mlen])
        off += mlen
    return md, bytes(buf[off:])


def decode(body):
    body = bytes(body)
    _need(body, 0, 6)
    sid, tf = struct.unpack_from('>IH', body, 0)
    if sid & 0x80000000:
        raise RefDecodeError('reserved bit set in stream id')
    tid = tf >> 10
    flags = tf & 0x3FF
    if tid not in NAMES or tid == EXT:
        raise RefDecodeError('unknown frame type %d' % tid)
    f = {'type': NAMES[tid], 'sid': sid, 'ignore': bool(flags & F_IGNORE),
         'has_md': bool(flags & F_METADATA), 'follows': False, 'complete': False, 'next': False,
         'metadata': None, 'data': b'', 'len': len(body)}
    off = 6
    if tid == SETUP:
        _need(body, off, 12)
        f['major'], f['minor'], f['keepalive_ms'], f['lifetime_ms'] = struct.unpack_from('>HHII', body, off)
        off += 12
        f['resume'] = bool(flags & F_FOLLOWS)
        f['lease'] = bool(flags & F_COMPLETE)
        if f['resume']:
            _need(body, off, 2)
            tl = struct.unpack_from('>H', body, off)[0]
            off += 2
            _need(body, off, tl)
            f['token'] = bytes(body[off:off + tl])
            off += tl
        for key in ('metadata_mime', 'data_mime'):
            _need(body, off, 1)
            ln = body[off]
            off += 1
            _need(body, off, ln)
            f[key] = bytes(body[off:off + ln])
            off += ln
        f['metadata'], f['data'] = _split_md(body, off, f['has_md'])
    elif tid == LEASE:
        _need(body, off, 8)
        ttl, n = struct.unpack_from('>II', body, off)
        f['ttl_ms'], f['n'] = ttl & 0x7FFFFFFF, n & 0x7FFFFFFF
        off += 8
        f['metadata'] = bytes(body[off:]) if f['has_md'] else None
    elif tid == KEEPALIVE:
        _need(body, off, 8)
        f['respond'] = bool(flags & F_FOLLOWS)
        f['position'] = struct.unpack_from('>Q', body, off)[0]
        off += 8
        f['data'] = bytes(body[off:])
    elif tid in (REQUEST_RESPONSE, REQUEST_FNF):
        f['follows'] = bool(flags & F_FOLLOWS)
        f['metadata'], f['data'] = _split_md(body, off, f['has_md'])
    elif tid in (REQUEST_STREAM, REQUEST_CHANNEL):
        f['follows'] = bool(flags & F_FOLLOWS)
        if tid == REQUEST_CHANNEL:
            f['complete'] = bool(flags & F_COMPLETE)
        _need(body, off, 4)
        f['n'] = struct.unpack_from('>I', body, off)[0]
        off += 4
        f['metadata'], f['data'] = _split_md(body, off, f['has_md'])
    elif tid == REQUEST_N:
        _need(body, off, 4)
        f['n'] = struct.unpack_from('>I', body, off)[0]
    elif tid == CANCEL:
        pass
    elif tid == PAYLOAD:
        f['follows'] = bool(flags & F_FOLLOWS)
        f['complete'] = bool(flags & F_COMPLETE)
        f['next'] = bool(flags & F_NEXT)
        f['metadata'], f['data'] = _split_md(body, off, f['has_md'])
    elif tid == ERROR:
        _need(body, off, 4)
        f['code'] = struct.unpack_from('>I', body, off)[0]
        f['code_name'] = ERR_NAME.get(f['code'], hex(f['code']))
        off += 4
        f['data'] = bytes(body[off:])
    elif tid == METADATA_PUSH:
        f['metadata'] = bytes(body[off:])
    elif tid == RESUME:
        _need(body, off, 6)
        f['major'], f['minor'], tl = struct.unpack_from('>HHH', body, off)
        off += 6
        _need(body, off, tl + 16)
        f['token'] = bytes(body[off:off + tl])
    elif tid == RESUME_OK:
        _need(body, off, 8)
    return f


def _hdr(sid, tid, flags):
    return struct.pack('>IH', sid, (tid << 10) | (flags & 0x3FF))


def _md_data(metadata, data, flags):
    out = b''
    if metadata is not None:
        flags |= F_METADATA
        out += len(metadata).to_bytes(3, 'big') + bytes(metadata)
    out += bytes(data or b'')
    return flags, out


def enc_setup(keepalive_ms=500, lifetime_ms=60000, metadata_mime=b'application/json',
              data_mime=b'application/json', metadata=None, data=b'', lease=False, resume=False,
              token=b'', major=1, minor=0):
    flags = (F_COMPLETE if lease else 0) | (F_FOLLOWS if resume else 0)
    mid = struct.pack('>HHII', major, minor, keepalive_ms, lifetime_ms)
    if resume:
        mid += struct.pack('>H', len(token)) + token
    mid += bytes([len(metadata_mime)]) + metadata_mime + bytes([len(data_mime)]) + data_mime
    flags, tail = _md_data(metadata, data, flags)
    return _hdr(0, SETUP, flags) + mid + tail


def enc_lease(ttl_ms, n, metadata=None):
    flags = F_METADATA if metadata is not None else 0
    return _hdr(0, LEASE, flags) + struct.pack('>II', ttl_ms, n) + (metadata or b'')


def enc_keepalive(respond, data=b'', position=0, sid=0):
    return _hdr(sid, KEEPALIVE, F_FOLLOWS if respond else 0) + struct.pack('>Q', position) + data


def enc_request(kind, sid, metadata=None, data=b'', n=None, follows=False, complete=False):
    tid = TYPE_BY_NAME[kind]
    flags = (F_FOLLOWS if follows else 0)
    if tid == REQUEST_CHANNEL and complete:
        flags |= F_COMPLETE
    mid = b''
    if tid in (REQUEST_STREAM, REQUEST_CHANNEL):
        mid = struct.pack('>I', n if n is not None else 0x7FFFFFFF)
    flags, tail = _md_data(metadata, data, flags)
    return _hdr(sid, tid, flags) + mid + tail


def enc_request_n(sid, n):
    return _hdr(sid, REQUEST_N, 0) + struct.pack('>I', n)


def enc_cancel(sid):
    return _hdr(sid, CANCEL, 0)


def enc_payload(sid, metadata=None, data=b'', next=True, complete=False, follows=False):
    flags = (F_FOLLOWS if follows else 0) | (F_COMPLETE if complete else 0) | (F_NEXT if next else 0)
    flags, tail = _md_data(metadata, data, flags)
    return _hdr(sid, PAYLOAD, flags) + tail


def enc_error(sid, code, data=b''):
    if isinstance(code, str):
        code = ERR[code]
    return _hdr(sid, ERROR, 0) + struct.pack('>I', code) + data


def enc_metadata_push(metadata, sid=0):
    return _hdr(sid, METADATA_PUSH, F_METADATA) + metadata


def enc_resume(token=b'tok', major=1, minor=0, last_server=0, first_client=0):
    return (_hdr(0, RESUME, 0) + struct.pack('>HHH', major, minor, len(token)) + token
            + struct.pack('>QQ', last_server, first_client))


def enc_resume_ok(position=0):
    return _hdr(0, RESUME_OK, 0) + struct.pack('>Q', position)


def with_len(body):
    return len(body).to_bytes(3, 'big') + body


class StreamDecoder:
    """Incremental decoder of a length-prefixed byte stream (wire tap of a ByteLink direction)."""

    def __init__(self):
        self.buf = bytearray()

    def feed(self, data):
        out = []
        self.buf += data
        while len(self.buf) >= 3:
            ln = int.from_bytes(self.buf[:3], 'big')
            if len(self.buf) < 3 + ln:
                break
            body = bytes(self.buf[3:3 + ln])
            del self.buf[:3 + ln]
            try:
                f = decode(body)
            except RefDecodeError as e:
                f = {'type': 'UNDECODABLE', 'sid': -1, 'error': str(e), 'len': ln, 'raw': body}
            f['wire_len'] = ln + 3
            out.append(f)
        return out
