"""Oracles over a recorded history. Each returns a list of Violation.

A Violation is (property, class, facts, message); `class` names the rule that fired and is what
minimisation preserves and what known_findings.json matches on.
"""
from collections import defaultdict

from . import app, refcodec

REQ_TYPES = refcodec.REQUEST_TYPES
FRAGMENTABLE = refcodec.FRAGMENTABLE
KIND_BY_TYPE = {'REQUEST_RESPONSE': 'rr', 'REQUEST_FNF': 'fnf', 'REQUEST_STREAM': 'stream', 'REQUEST_CHANNEL': 'channel'}


class Violation:
    __slots__ = ('prop', 'cls', 'facts', 'msg', 'seq')

    def __init__(self, prop, cls, msg, seq=None, **facts):
        self.prop = prop
        self.cls = cls
        self.msg = msg
        self.facts = facts
        self.seq = seq

    def key(self):
        return self.prop, self.cls

    def to_json(self):
        return {'property': self.prop, 'class': self.cls, 'message': self.msg, 'facts': self.facts, 'seq': self.seq}

    def __repr__(self):
        return 'Violation(%s %s: %s %s)' % (self.prop, self.cls, self.msg, self.facts)


def other(ep):
    return 'server' if ep.startswith('client') else 'client'


def is_content(f):
    return bool(f.get('data')) or bool(f.get('metadata'))


class Analysis:
    """Indexes a history once; shared by all oracles of a run."""

    def __init__(self, world):
        self.world = world
        self.plan = world.plan
        self.h = world.history
        self.ia = {ia['id']: ia for ia in self.plan.get('interactions', [])}
        self.by_kind = defaultdict(list)
        # application-level verdicts only look at what happened before the harness tore the
        # connection down at the end of the run (the 'settled' mark)
        self.settled_seq = next((ev['seq'] for ev in self.h if ev['k'] == 'mark' and ev.get('what') == 'settled'),
                                float('inf'))
        for ev in self.h:
            if ev['seq'] > self.settled_seq and ev['k'] in ('sub', 'pub', 'fut', 'hnd', 'act', 'log', 'loopexc'):
                self.by_kind['post_' + ev['k']].append(ev)
                continue
            self.by_kind[ev['k']].append(ev)
        self.conn_fault = bool(self.by_kind.get('fault')) and any(
            e['what'] in ('cut', 'close', 'reset', 'eof', 'ws_error') for e in self.by_kind['fault'])
        self.first_conn_fault_seq = min(
            [e['seq'] for e in self.by_kind.get('fault', []) if e['what'] in ('cut', 'close', 'reset', 'eof', 'ws_error')],
            default=None)
        # iid <-> sid per requester endpoint from enqueued request frames
        self.sid_of = {}  # iid -> (requester ep, sid)
        self.iid_of = {}  # (requester ep, sid, occurrence) ; latest mapping (ep, sid) -> list of (seq, iid)
        self.sid_hist = defaultdict(list)
        for ev in self.by_kind['enq']:
            f = ev['f']
            if f['type'] in REQ_TYPES:
                iid = self._tag_iid(f)
                if iid is None and not f.get('data') and not f.get('metadata'):
                    # a request with an empty payload carries no tag: the plan has at most one such interaction
                    iid = next((i for i, ia in self.ia.items() if ia.get('empty_req')), None)
                if iid is not None:
                    self.sid_of.setdefault(iid, (ev['ep'], f['sid']))
                    self.sid_hist[(ev['ep'], f['sid'])].append((ev['seq'], iid))
        self.acts = defaultdict(list)
        for ev in self.by_kind['act']:
            if 'iid' in ev:
                self.acts[ev['iid']].append(ev)
        self.subs = defaultdict(list)
        for ev in self.by_kind['sub']:
            self.subs[(ev['iid'], ev['role'])].append(ev)
        self.pubs = defaultdict(list)
        for ev in self.by_kind['pub']:
            self.pubs[(ev['iid'], ev['role'])].append(ev)
        self.futs = defaultdict(list)
        for ev in self.by_kind['fut']:
            self.futs[(ev['iid'], ev['role'])].append(ev)
        self.hnds = defaultdict(list)
        for ev in self.by_kind['hnd']:
            if ev.get('iid') is not None:
                self.hnds[ev['iid']].append(ev)
        self.fault_free = not self.by_kind.get('fault') or all(
            e['what'] in ('stall',) for e in self.by_kind['fault'])
        self.stopped = world.stats.get('stop_reason') == 'stop'

    @staticmethod
    def _tag_iid(f):
        for part in (f.get('data'), f.get('metadata')):
            if part:
                m = app._TAG_RE.match(bytes(part[:app.TAG_LEN]))
                if m and m.group(2) == b'q':
                    return int(m.group(1))
        return None

    def requester(self, iid):
        return self.ia[iid].get('by', 'client')

    def responder(self, iid):
        return other(self.requester(iid))

    def cancel_seq(self, iid, role='requester'):
        for ev in self.acts.get(iid, ()):
            if ev['what'] == 'cancel' and ev.get('role', 'requester') == role:
                return ev['seq']
        return None

    def request_failed(self, iid):
        return any(ev['what'] == 'request_failed' for ev in self.acts.get(iid, ()))

    def requested(self, iid):
        return any(ev['what'] == 'request' for ev in self.acts.get(iid, ()))


def expected_payload(iid, direction, idx, script):
    dlen, mlen = app.elem_lens(script, idx)
    return app.nb(app.content(iid, direction, idx, 'D', dlen)), app.nb(app.content(iid, direction, idx, 'M', mlen))


def planned_elements(iid, direction, script):
    """(list of (data, metadata)), error_at) the producer script will emit if fully drained."""
    if script is None:
        return [], None
    start = script.get('start_idx', 0)
    count = script.get('count', 0)
    error_at = script.get('error_at')
    if error_at is not None and error_at >= count and script.get('end') == 'flag' and count > 0:
        error_at = None  # the last element carried the complete flag: the stream ended before the error
    n = count if error_at is None else min(count, error_at)
    return [expected_payload(iid, direction, start + k, script) for k in range(n)], error_at


# ------------------------------------------------------------------------------------------
# C01: end-to-end delivery and correlation
# ------------------------------------------------------------------------------------------

def oracle_c01(an):
    out = []
    V = lambda cls, msg, seq=None, **f: out.append(Violation('C01', 'C01.' + cls, msg, seq, **f))
    # requests nobody issued
    for ev in an.by_kind['hnd']:
        if ev.get('unknown'):
            V('unattributable_request', 'handler %s received a payload no application emitted' % ev['method'],
              ev['seq'], method=ev['method'])
    for iid, ia in an.ia.items():
        kind = ia['kind']
        if not an.requested(iid) or an.request_failed(iid):
            continue
        req = ia.get('req', {})
        facts = dict(kind=kind, by=an.requester(iid), framing=an.plan.get('framing', 'tcp'), iid=iid)
        cancel_seq = an.cancel_seq(iid)
        # --- request payload reaches exactly the matching handler, once, intact
        method = {'rr': 'request_response', 'fnf': 'request_fire_and_forget', 'stream': 'request_stream',
                  'channel': 'request_channel', 'push': 'on_metadata_push'}[kind]
        if kind == 'push':
            exp = (b'', app.nb(app.content(iid, 'q', 0, 'M', max(app.TAG_LEN, req.get('mlen') or app.TAG_LEN))))
            got = [ev for ev in an.by_kind['hnd'] if ev['method'] == 'on_metadata_push'
                   and ev['ep'] == an.responder(iid) and ev.get('metadata', b'')[:app.TAG_LEN] == exp[1][:app.TAG_LEN]]
        else:
            exp = expected_payload(iid, 'q', 0, {'dlen': req.get('dlen', 16), 'mlen': req.get('mlen')})
            got = [ev for ev in an.hnds.get(iid, ()) if ev['method'] != 'on_metadata_push']
        for ev in got:
            if ev['ep'] != an.responder(iid) or ev['method'] != method:
                V('request_misrouted', 'request of interaction %d delivered to %s.%s' % (iid, ev['ep'], ev['method']),
                  ev['seq'], **facts)
            elif (ev.get('data', b''), ev.get('metadata', b'')) != exp:
                V('request_corrupt', 'request payload of interaction %d altered in transit' % iid, ev['seq'], **facts)
        if len(got) > 1:
            V('request_duplicated', 'request of interaction %d delivered %d times' % (iid, len(got)), got[1]['seq'], **facts)
        if not got and an.fault_free and an.stopped is not None:
            # a request cancelled before it was sent may legitimately never arrive
            if cancel_seq is None and not an.conn_fault:
                V('request_lost', 'request of interaction %d never reached the peer handler' % iid, None, **facts)
        handler_ok = bool(got) and all(g['ep'] == an.responder(iid) and g['method'] == method for g in got)
        # --- responses
        resp = ia.get('resp', {})
        if kind == 'rr':
            futs = an.futs.get((iid, 'requester'), [])
            if len(futs) > 1:
                V('response_duplicated', 'request-response %d resolved %d times' % (iid, len(futs)), futs[1]['seq'], **facts)
            mode = resp.get('mode', 'now')
            if futs:
                f0 = futs[0]
                if f0['state'] == 'result':
                    e = expected_payload(iid, 'r', 0, {'dlen': resp.get('dlen', 16), 'mlen': resp.get('mlen')})
                    if (f0['data'], f0['metadata']) != e:
                        V('response_corrupt', 'response of request %d is not the payload its handler produced' % iid,
                          f0['seq'], **facts)
                    if mode in ('fail', 'raise', 'never'):
                        V('response_spurious', 'request %d got a result although its handler produced none' % iid,
                          f0['seq'], **facts)
                elif f0['state'] == 'exception':
                    if mode in ('now', 'delay', 'hops') and an.fault_free and handler_ok:
                        V('response_error', 'request %d failed (%s) although its handler answered' % (iid, f0.get('err')),
                          f0['seq'], **facts)
                    elif mode in ('fail', 'raise') and ('E%02d' % iid) not in (f0.get('err') or '') and an.fault_free:
                        V('error_altered', 'request %d: error text of the handler not preserved: %s' % (iid, f0.get('err')),
                          f0['seq'], **facts)
            elif an.fault_free and cancel_seq is None and mode != 'never':
                V('response_lost', 'request-response %d never resolved' % iid, None, **facts)
        elif kind in ('stream', 'channel'):
            _check_direction(an, V, iid, 'requester', 'r', resp if (kind == 'stream' or resp.get('src') is not None) else None,
                             facts, handler_ok, producer_role='responder')
            if kind == 'channel' and resp.get('sub') is not None:
                _check_direction(an, V, iid, 'responder', 'c', ia.get('pub'), facts, handler_ok, producer_role='requester')
    return out


def _check_direction(an, V, iid, consumer_role, direction, script, facts, handler_ok, producer_role):
    """Elements flowing to `consumer_role`'s subscriber of interaction iid."""
    evs = an.subs.get((iid, consumer_role), [])
    facts = dict(facts, direction=direction)
    planned, error_at = planned_elements(iid, direction, script)
    delivered = [(e['data'], e['metadata']) for e in evs if e['cb'] == 'on_next' and (e['data'] or e['metadata'])]
    for i, d in enumerate(delivered):
        if i >= len(planned) or d != planned[i]:
            seq = [e for e in evs if e['cb'] == 'on_next' and (e['data'] or e['metadata'])][i]['seq']
            tag = app._TAG_RE.match(d[0][:app.TAG_LEN] or d[1][:app.TAG_LEN])
            foreign = bool(tag) and int(tag.group(1)) != iid
            V('element_foreign' if foreign else 'element_corrupt',
              'interaction %d dir %s: element %d delivered is not element %d emitted (cross-talk=%s)'
              % (iid, direction, i, i, foreign), seq, **facts)
            return
    terminal = None
    for e in evs:
        if e['cb'] == 'on_complete' or (e['cb'] == 'on_next' and e.get('complete')):
            terminal = ('complete', e)
            break
        if e['cb'] == 'on_error':
            terminal = ('error', e)
            break
    cancelled = an.cancel_seq(iid, consumer_role) is not None or an.cancel_seq(iid, 'requester') is not None
    mode_raise = an.ia[iid].get('resp', {}).get('mode') == 'raise'
    if terminal is None:
        if an.fault_free and not cancelled and an.world.incomplete is None and evs and handler_ok and not mode_raise:
            # consumer subscribed, nobody cancelled, no fault, yet no terminal signal ever arrived
            if producer_role == 'responder' or (script is not None):
                V('stream_incomplete', 'interaction %d dir %s never terminated at the consumer (%d/%d elements)'
                  % (iid, direction, len(delivered), len(planned)), None, **facts)
            elif script is None and consumer_role == 'responder':
                V('stream_incomplete', 'interaction %d: completion of a publisher-less channel never reached the responder'
                  % iid, None, **facts)
        return
    what, e = terminal
    if what == 'complete':
        if len(delivered) != len(planned) or error_at is not None:
            if not (error_at is not None and an.conn_fault):
                V('premature_complete', 'interaction %d dir %s completed after %d of %d elements'
                  % (iid, direction, len(delivered), len(planned)), e['seq'], **facts)
    else:
        if an.fault_free and not mode_raise and handler_ok:
            if error_at is None:
                # consumer-side errors are legitimate only when the peer rejected / failed
                if producer_role == 'responder' or script is not None:
                    V('spurious_error', 'interaction %d dir %s errored (%s) though the producer did not fail'
                      % (iid, direction, e.get('err')), e['seq'], **facts)
            else:
                awaited = consumer_role == 'requester' and an.ia[iid].get('api') == 'awaitable'
                if len(delivered) != len(planned) and not awaited:
                    # (the awaitable wrapper raises the error and, by its API shape, hands over no partial list)
                    # every element handed to the library before the failure is still delivered, in
                    # order, before the error (an ERROR frame must not overtake queued elements)
                    V('error_overtook', 'interaction %d dir %s: error delivered after %d of the %d elements emitted before it'
                      % (iid, direction, len(delivered), len(planned)), e['seq'], src=(script or {}).get('src'), **facts)
                if ('E%02d' % iid) not in (e.get('err') or ''):
                    V('error_altered', 'interaction %d: error text not preserved: %s' % (iid, e.get('err')), e['seq'], **facts)


# ------------------------------------------------------------------------------------------
# wire-level helpers: units (fragment groups) per direction and stream
# ------------------------------------------------------------------------------------------

def sender_of(direction):
    return 'client' if direction == 'c2s' else 'server'


def wire_units(an):
    """Per sender endpoint: list of units in wire order. unit = dict(sid, frames=[wire f...], seq)."""
    res = {'client': [], 'server': []}
    open_units = {}
    interleave = []
    for ev in an.by_kind['wire']:
        ep = sender_of(ev['dir'])
        f = ev['f']
        sid = f['sid']
        key = (ep, sid)
        u = open_units.get(key)
        if u is not None:
            if f['type'] == 'PAYLOAD':
                u['frames'].append(f)
                u['seqs'].append(ev['seq'])
                if not f.get('follows'):
                    del open_units[key]
                continue
            # a non-PAYLOAD frame of the same stream between fragments
            interleave.append((ep, sid, ev['seq'], f['type']))
            res[ep].append({'sid': sid, 'frames': [f], 'seqs': [ev['seq']], 'inside': True})
            continue
        u = {'sid': sid, 'frames': [f], 'seqs': [ev['seq']]}
        res[ep].append(u)
        if f.get('follows') and f['type'] in FRAGMENTABLE:
            open_units[key] = u
    return res, interleave, open_units


def unit_summary(u):
    fr = u['frames']
    first, last = fr[0], fr[-1]
    md = b''.join(f['metadata'] or b'' for f in fr)
    data = b''.join(f['data'] or b'' for f in fr)
    d = {'type': first['type'], 'sid': u['sid'], 'data': data, 'metadata': md}
    if first['type'] in ('PAYLOAD', 'REQUEST_CHANNEL'):
        d['complete'] = bool(last.get('complete'))
    if first['type'] == 'PAYLOAD':
        d['next'] = bool(data) or bool(md)  # NEXT on an empty payload carries no element
    if 'n' in first:
        d['n'] = first['n']
    if first['type'] == 'ERROR':
        d['code'] = first.get('code')
    return d


def enq_summary(f):
    d = {'type': f['type'], 'sid': f['sid'], 'data': f.get('data') or b'', 'metadata': f.get('metadata') or b''}
    if f['type'] in ('PAYLOAD', 'REQUEST_CHANNEL'):
        d['complete'] = bool(f.get('complete'))
    if f['type'] == 'PAYLOAD':
        d['next'] = is_content(f)
    if 'n' in f and f['type'] in ('REQUEST_STREAM', 'REQUEST_CHANNEL', 'REQUEST_N'):
        d['n'] = f['n']
    if f['type'] == 'ERROR':
        d['code'] = f.get('code')
    return d


# ------------------------------------------------------------------------------------------
# C05: per-stream wire order and fragment contiguity
# ------------------------------------------------------------------------------------------

def oracle_c05(an):
    out = []
    V = lambda cls, msg, seq=None, **f: out.append(Violation('C05', 'C05.' + cls, msg, seq, **f))
    units, interleave, open_units = wire_units(an)
    for ep, sid, seq, typ in interleave:
        if sid != 0:
            V('frame_inside_fragments', '%s frame written between the fragments of another frame of stream %d' % (typ, sid),
              seq, ep=ep, inner=typ)
    for ep in ('client', 'server'):
        enq = defaultdict(list)
        for ev in an.by_kind['enq']:
            if ev['ep'] == ep and ev['f']['sid'] != 0:
                enq[ev['f']['sid']].append(ev)
        wire = defaultdict(list)
        for u in units[ep]:
            if u['sid'] > 0:
                wire[u['sid']].append(u)
        for sid, us in wire.items():
            es = enq.get(sid, [])
            for i, u in enumerate(us):
                if (ep, sid) in open_units and open_units[(ep, sid)] is u:
                    continue  # still being written when the run ended
                us_ = unit_summary(u)
                if i >= len(es):
                    V('wire_frame_not_enqueued', 'stream %d: frame on the wire that was never queued' % sid, u['seqs'][0], ep=ep)
                    break
                es_ = enq_summary(es[i]['f'])
                if us_ != es_:
                    # find out whether it is a pure reordering or a content change
                    same_elsewhere = any(enq_summary(e['f']) == us_ for e in es)
                    V('reordered' if same_elsewhere else 'content_changed',
                      'stream %d: wire unit %d (%s, %d+%d bytes) differs from queued frame %d (%s, %d+%d bytes)'
                      % (sid, i, us_['type'], len(us_['metadata']), len(us_['data']), i, es_['type'],
                         len(es_['metadata']), len(es_['data'])),
                      u['seqs'][0], ep=ep, wire_type=us_['type'], queued_type=es_['type'],
                      fragmented=len(u['frames']) > 1)
                    break
    _receiver_side(an, lambda cls, msg, seq=None, **f: out.append(Violation('C05', 'C05.' + cls, msg, seq, **f)), '')
    return out


def _receiver_side(an, V, prop_cls):
    """Receiver-side consequence: per stream, the frames the peer reassembles are the frames the
    sender queued, in order, none merged, truncated, dropped or reordered - also when frames of
    other streams arrive between the fragments."""
    units, interleave, open_units = wire_units(an)
    # a stream ended by CANCEL or ERROR is dropped by its receiver at once; what is still in flight
    # for it is legitimately discarded (or reassembled from the middle): not judged
    aborted = set()
    for (req_ep, sid), hist in an.sid_hist.items():
        for _, iid in hist:
            ia = an.ia.get(iid, {})
            planned_error = any((ia.get(n) or {}).get('error_at') is not None for n in ('resp', 'pub')) or \
                (ia.get('resp') or {}).get('mode') in ('raise', 'fail')
            if planned_error or an.cancel_seq(iid) is not None or an.cancel_seq(iid, 'responder') is not None:
                aborted.add(sid)
    for ep in ('client', 'server'):
        peer = other(ep)
        src = defaultdict(list)
        for ev in an.by_kind['enq']:
            if ev['ep'] == ep and ev['f']['type'] in FRAGMENTABLE and ev['f']['sid'] not in aborted:
                src[ev['f']['sid']].append(ev)
        got = defaultdict(list)
        for ev in an.by_kind['reasm']:
            if ev['ep'] == peer:
                got[ev['f']['sid']].append(ev)
        written = defaultdict(int)  # complete fragmentable units on the wire per stream
        for u in units[ep]:
            if u['frames'][0]['type'] in FRAGMENTABLE and not u.get('inside') and \
                    not ((ep, u['sid']) in open_units and open_units[(ep, u['sid'])] is u):
                written[u['sid']] += 1
        for sid, ss in src.items():
            gs = got.get(sid, [])
            bad = False
            for i, g in enumerate(gs):
                if i >= len(ss):
                    break
                a, b = enq_summary(ss[i]['f']), enq_summary(g['f'])
                if a != b:
                    diff = [k for k in a if a.get(k) != b.get(k)]
                    V(prop_cls + 'receiver_reassembly_mismatch', 'stream %d frame %d (%s): the peer reassembled something else (%s differ)'
                      % (sid, i, a['type'], diff), g['seq'], ep=peer, type=a['type'], fields=','.join(diff))
                    bad = True
                    break
            if not bad and an.fault_free and an.stopped and an.world.incomplete is None and len(gs) < written[sid]:
                V(prop_cls + 'receiver_frame_missing', 'stream %d: %d frames were written completely, the peer reassembled only %d'
                  % (sid, written[sid], len(gs)), None, ep=peer, multiplexed=len(src) > 1)


# ------------------------------------------------------------------------------------------
# C03: fragmentation exact, within the size limit (wire invariant) + reassembly
# ------------------------------------------------------------------------------------------

def oracle_c03(an):
    out = []
    V = lambda cls, msg, seq=None, **f: out.append(Violation('C03', 'C03.' + cls, msg, seq, **f))
    plan = an.plan
    units, interleave, open_units = wire_units(an)
    tcp = plan.get('framing', 'tcp') == 'tcp'
    for ep in ('client', 'server'):
        F = plan.get(ep, {}).get('fragment')
        enq_by_sid = defaultdict(list)
        for ev in an.by_kind['enq']:
            if ev['ep'] == ep:
                enq_by_sid[ev['f']['sid']].append(ev['f'])
        for u in units[ep]:
            fr = u['frames']
            first = fr[0]
            if first['type'] not in FRAGMENTABLE:
                continue
            facts = dict(ep=ep, type=first['type'], framing='tcp' if tcp else 'ws', fragsize=F,
                         has_metadata=any(f['metadata'] for f in fr))
            if F is None:
                if len(fr) > 1:
                    V('fragmented_without_config', 'frame split although no fragment size is configured', u['seqs'][0], **facts)
                continue
            complete_unit = not ((ep, u['sid']) in open_units and open_units[(ep, u['sid'])] is u)
            if len(fr) > 1:
                for i, f in enumerate(fr):
                    if f['wire_len'] > F:
                        V('fragment_oversize', 'fragment %d/%d is %d bytes on the wire, limit %d'
                          % (i, len(fr), f['wire_len'], F), u['seqs'][i], excess=f['wire_len'] - F,
                          frag_has_metadata=bool(f['metadata']), **facts)
                        break
                for i, f in enumerate(fr[1:], 1):
                    if f['type'] != 'PAYLOAD':
                        V('continuation_not_payload', 'fragment %d has type %s' % (i, f['type']), u['seqs'][i], **facts)
                for i, f in enumerate(fr[:-1]):
                    if not f.get('follows'):
                        V('follows_missing', 'fragment %d of %d lacks follows' % (i, len(fr)), u['seqs'][i], **facts)
                    if f.get('complete'):
                        V('complete_not_last', 'complete flag on fragment %d of %d' % (i, len(fr)), u['seqs'][i], **facts)
                seen_data = False
                for i, f in enumerate(fr):
                    if f['metadata'] and seen_data:
                        V('metadata_after_data', 'metadata in fragment %d after data started' % i, u['seqs'][i], **facts)
                    if f['data']:
                        seen_data = True
                if complete_unit:
                    # would the whole frame have fitted?
                    hdr = 6 + (4 if first['type'] in ('REQUEST_STREAM', 'REQUEST_CHANNEL') else 0) + (3 if tcp else 0)
                    md = sum(len(f['metadata'] or b'') for f in fr)
                    dt = sum(len(f['data'] or b'') for f in fr)
                    whole = hdr + (3 + md if md else 0) + dt
                    if whole <= F and len(fr) > 1:
                        V('split_although_fits', 'frame of %d bytes split into %d fragments with limit %d'
                          % (whole, len(fr), F), u['seqs'][0], **facts)
            else:
                if first['wire_len'] > F and not first.get('follows'):
                    V('unsplit_oversize', 'single frame of %d bytes on the wire, limit %d' % (first['wire_len'], F),
                      u['seqs'][0], excess=first['wire_len'] - F, frag_has_metadata=bool(first['metadata']), **facts)
    # a fragment sequence must end: a last-written fragment that still says 'follows' with nothing
    # after it (at quiescence) leaves the receiver waiting forever
    if an.fault_free and an.world.incomplete is None:
        for (ep, sid), u in open_units.items():
            last_seq = u['seqs'][-1]
            later = [e for e in an.by_kind['wire'] if e['seq'] > last_seq and sender_of(e['dir']) == ep]
            settled = an.settled_seq
            if last_seq < settled and (an.stopped or an.world.stats.get('stop_reason') == 'quiet'):
                fr = u['frames']
                V('fragment_sequence_unterminated', 'stream %d: %d fragment(s) written, the last still flagged follows, nothing after it'
                  % (sid, len(fr)), last_seq, ep=ep, type=fr[0]['type'], fragsize=plan.get(ep, {}).get('fragment'),
                  has_metadata=any(f['metadata'] for f in fr), has_data=any(f['data'] for f in fr))
    # reassembly on the peer equals the queued source (type, n, complete, content)
    for ep in ('client', 'server'):
        peer = other(ep)
        src = defaultdict(list)
        for ev in an.by_kind['enq']:
            if ev['ep'] == ep and ev['f']['type'] in FRAGMENTABLE:
                src[ev['f']['sid']].append(ev)
        got = defaultdict(list)
        for ev in an.by_kind['reasm']:
            if ev['ep'] == peer:
                got[ev['f']['sid']].append(ev)
        for sid, gs in got.items():
            ss = src.get(sid, [])
            for i, g in enumerate(gs):
                if i >= len(ss):
                    break
                a, b = enq_summary(ss[i]['f']), enq_summary(g['f'])
                if a != b:
                    diff = [k for k in a if a.get(k) != b.get(k)]
                    V('reassembly_mismatch', 'stream %d frame %d (%s): reassembled frame differs in %s'
                      % (sid, i, a['type'], diff), g['seq'], ep=peer, type=a['type'], fields=','.join(diff),
                      fragmented=ss[i]['f'].get('fragsize') is not None)
                    break
    return out


# ------------------------------------------------------------------------------------------
# C06: request-n flow control
# ------------------------------------------------------------------------------------------

def oracle_c06(an):
    out = []
    V = lambda cls, msg, seq=None, **f: out.append(Violation('C06', 'C06.' + cls, msg, seq, **f))
    for ep in ('client', 'server'):
        credit = defaultdict(int)
        emitted = defaultdict(int)
        role = {}  # sid -> 'responder'/'requester' (as producer)
        kindmap = {}
        flagged = set()
        for ev in an.h:
            k = ev['k']
            if k == 'rx' and ev['ep'] == ep:
                f = ev['f']
                t = f['type']
                if t in ('REQUEST_STREAM', 'REQUEST_CHANNEL'):
                    sid = f['sid']
                    # a new incoming request on this id: (re)start the ledger
                    if sid not in role or role[sid] != 'responder' or True:
                        pass
                    if f.get('n') is not None and not f.get('_cont'):
                        credit[sid] = f['n']
                        emitted[sid] = 0
                        role[sid] = 'responder'
                        kindmap[sid] = t
                        flagged.discard(sid)
                elif t == 'REQUEST_N':
                    credit[f['sid']] += f['n']
            elif k == 'enq' and ev['ep'] == ep:
                f = ev['f']
                t = f['type']
                sid = f['sid']
                if t == 'REQUEST_CHANNEL':
                    credit[sid] = 0
                    emitted[sid] = 0
                    role[sid] = 'requester'
                    kindmap[sid] = t
                    flagged.discard(sid)
                elif t in ('REQUEST_STREAM', 'REQUEST_RESPONSE', 'REQUEST_FNF'):
                    role[sid] = 'consumer'
                elif t == 'PAYLOAD' and f.get('next') and is_content(f) and role.get(sid) in ('responder', 'requester'):
                    emitted[sid] += 1
                    if emitted[sid] > credit[sid] and sid not in flagged:
                        flagged.add(sid)
                        iid = _iid_for(an, ep, sid, ev['seq'], role[sid])
                        src = _src_for(an, iid, role[sid])
                        V('emitted_beyond_credit', 'stream %d: payload %d queued with only %d credits received'
                          % (sid, emitted[sid], credit[sid]), ev['seq'], ep=ep, producer=role[sid], src=src,
                          kind=kindmap.get(sid))
    # application credit is transmitted with exactly that value, in order
    for iid, ia in an.ia.items():
        if ia['kind'] not in ('stream', 'channel') or iid not in an.sid_of:
            continue
        req_ep, sid = an.sid_of[iid]
        for role_, ep in (('requester', req_ep), ('responder', other(req_ep))):
            grants = [ev for ev in an.acts.get(iid, ()) if ev['what'] == 'credit' and ev.get('role') == role_]
            if role_ == 'requester':
                start = _first_enq_seq(an, ep, sid, iid)
            else:
                start = 0
            lo, hi = _life_span(an, req_ep, sid, iid)
            frames = [ev for ev in an.by_kind['enq'] if ev['ep'] == ep and ev['f']['type'] == 'REQUEST_N'
                      and ev['f']['sid'] == sid and lo <= ev['seq'] < hi]
            gv = [g['n'] for g in grants]
            fv = [f['f']['n'] for f in frames]
            if role_ == 'requester' and ia.get('api') == 'awaitable':
                # credit is granted by the library's CollectorSubscriber: every grant is the rate limit
                limit = ia.get('sub', {}).get('initial_n') or 0x7FFFFFFF
                if any(v != limit for v in fv):
                    V('collector_grant_wrong', 'interaction %d: CollectorSubscriber(limit_rate=%d) granted %s' % (iid, limit, fv[:6]),
                      frames[0]['seq'], ep=ep, role=role_)
            elif gv != fv:
                V('credit_not_transmitted', 'interaction %d: application granted %s, REQUEST_N frames queued %s'
                  % (iid, gv[:8], fv[:8]), (frames or grants or [{'seq': None}])[0]['seq'], ep=ep, role=role_)
            if role_ == 'requester':
                n0 = ia.get('sub', {}).get('initial_n', 0x7FFFFFFF)
                reqf = [ev for ev in an.by_kind['enq'] if ev['ep'] == ep and ev['f']['sid'] == sid
                        and ev['f']['type'] in ('REQUEST_STREAM', 'REQUEST_CHANNEL') and lo <= ev['seq'] < hi]
                if reqf and reqf[0]['f'].get('n') != n0:
                    V('initial_n_altered', 'interaction %d: initial_request_n(%d) sent as %s' % (iid, n0, reqf[0]['f'].get('n')),
                      reqf[0]['seq'], ep=ep)
    # credit the consumer granted reaches the producer's publisher (same values, same order); grants
    # may only go missing once the producer has terminated
    if an.fault_free and an.world.incomplete is None:
        for iid, ia in an.ia.items():
            if ia['kind'] not in ('stream', 'channel') or iid not in an.sid_of or ia.get('api') == 'awaitable':
                continue
            for prod_role, cons_role, script in (('responder', 'requester', ia.get('resp')), ('requester', 'responder', ia.get('pub'))):
                if not script or script.get('src') is None:
                    continue
                if cons_role == 'responder' and (ia.get('resp') or {}).get('sub') is None:
                    continue
                prod = an.pubs.get((iid, prod_role), [])
                if not [e for e in prod if e['cb'] == 'subscribe']:
                    continue
                received = [e['n'] for e in prod if e['cb'] == 'request']
                granted = [g['n'] for g in an.acts.get(iid, ()) if g['what'] == 'credit' and g.get('role') == cons_role]
                if cons_role == 'requester':
                    granted = [ia.get('sub', {}).get('initial_n', 0x7FFFFFFF)] + granted
                if received != granted[:len(received)]:
                    V('credit_altered', 'interaction %d: %s granted %s, the %s publisher was asked for %s'
                      % (iid, cons_role, granted[:6], prod_role, received[:6]), None, role=prod_role, src=script.get('src'))
                elif len(received) < len(granted):
                    finished = [e for e in prod if e['cb'] in ('complete', 'error', 'on_complete', 'exhausted', 'error_signal',
                                                               'cancel', 'on_cancel')] or _emitted_all_flagged_role(
                        an, iid, prod_role, prod, float('inf'))
                    if not finished:
                        V('credit_lost', 'interaction %d: %s granted %d credits in %d grants, only %d grants reached the %s publisher, '
                                         'which is still waiting' % (iid, cons_role, sum(granted), len(granted), len(received), prod_role),
                          None, role=prod_role, src=script.get('src'))
    # completeness: at quiescence (every interaction finished, or nothing at all has happened for 10 virtual seconds) every
    # element for which credit was granted has been sent
    quiet = an.world.stats.get('stop_reason') == 'quiet' and not an.world.stats.get('not_drained') and not an.world.incomplete
    if an.fault_free and (an.stopped or quiet) and not an.plan.get('client', {}).get('honor_lease'):
        for iid, ia in an.ia.items():
            if ia['kind'] not in ('stream', 'channel') or iid not in an.sid_of:
                continue
            for role_, direction, script in (('responder', 'r', ia.get('resp')), ('requester', 'c', ia.get('pub'))):
                if script is None or script.get('src') is None:
                    continue
                if an.cancel_seq(iid) is not None or an.cancel_seq(iid, 'responder') is not None:
                    continue
                reqs = [e for e in an.pubs.get((iid, role_), []) if e['cb'] == 'request']
                emits = [e for e in an.pubs.get((iid, role_), []) if e['cb'] == 'emit']
                if not reqs:
                    continue
                total = sum(e['n'] for e in reqs)
                planned, error_at = planned_elements(iid, direction, script)
                want = min(len(planned), total)
                if len(emits) < want:
                    V('withheld', 'interaction %d %s: %d credits received, %d elements available, only %d emitted'
                      % (iid, role_, total, len(planned), len(emits)), None, role=role_, src=script.get('src'))
    return out


def _life_span(an, req_ep, sid, iid):
    """[lo, hi) seq range during which (req_ep, sid) denotes interaction iid (ids may be reused)."""
    hist = an.sid_hist.get((req_ep, sid), [])
    lo, hi = 0, float('inf')
    for i, (seq, i2) in enumerate(hist):
        if i2 == iid:
            lo = seq - 1000000 if i == 0 else seq  # frames queued before the request frame (REQUEST_N first) count
            if i == 0:
                lo = 0
            if i + 1 < len(hist):
                hi = hist[i + 1][0]
            break
    return lo, hi


def _first_enq_seq(an, ep, sid, iid):
    for seq, i2 in an.sid_hist.get((ep, sid), []):
        if i2 == iid:
            return seq
    return 0


def _iid_for(an, ep, sid, seq, role):
    req_ep = ep if role == 'requester' else other(ep)
    best = None
    for s, iid in an.sid_hist.get((req_ep, sid), []):
        if s <= seq or role == 'responder':
            best = iid
    return best


def _src_for(an, iid, role):
    if iid is None or iid not in an.ia:
        return None
    ia = an.ia[iid]
    sc = ia.get('resp') if role == 'responder' else ia.get('pub')
    return (sc or {}).get('src')


# ------------------------------------------------------------------------------------------
# C08: legality of emitted frames for the emitter's role
# ------------------------------------------------------------------------------------------

class _S:
    __slots__ = ('role', 'kind', 'out_done', 'in_done', 'dead', 'req_seen', 'why')

    def __init__(self, role, kind):
        self.role = role
        self.kind = kind
        self.out_done = False  # own sending direction completed
        self.in_done = False  # peer's sending direction completed (as received)
        self.dead = False  # nothing may be emitted any more
        self.why = None


ALLOWED = {
    ('requester', 'rr'): {'CANCEL'},
    ('requester', 'fnf'): set(),
    ('requester', 'stream'): {'CANCEL', 'REQUEST_N'},
    ('requester', 'channel'): {'CANCEL', 'REQUEST_N', 'PAYLOAD', 'ERROR'},
    ('responder', 'rr'): {'PAYLOAD', 'ERROR'},
    ('responder', 'fnf'): set(),
    ('responder', 'stream'): {'PAYLOAD', 'ERROR'},
    ('responder', 'channel'): {'PAYLOAD', 'ERROR', 'REQUEST_N', 'CANCEL'},
}


def oracle_c08(an):
    out = []
    V = lambda cls, msg, seq=None, **f: out.append(Violation('C08', 'C08.' + cls, msg, seq, **f))
    lease = bool(an.plan.get('client', {}).get('honor_lease') or an.plan.get('server', {}).get('honor_lease'))
    _c08_wire_rules(an, V)
    for ep in ('client', 'server'):
        parity = 1 if ep == 'client' else 0
        st = {}
        first_enq = True
        setup_count = 0
        rejected = set()  # sids whose incoming request we must answer with ERROR only
        for ev in an.h:
            k = ev['k']
            if k == 'act' and ev.get('what') == 'connected' and ep == 'client':
                pass
            if k == 'rx' and ev['ep'] == ep:
                f = ev['f']
                t, sid = f['type'], f['sid']
                if sid == 0 or sid < 0:
                    continue
                s = st.get(sid)
                if t in REQ_TYPES:
                    if s is None or s.dead:
                        if f.get('follows') or True:
                            s = st[sid] = _S('responder', KIND_BY_TYPE[t])
                            if t == 'REQUEST_CHANNEL' and f.get('complete') and not f.get('follows'):
                                s.in_done = True
                            if t == 'REQUEST_FNF':
                                s.dead = False
                    continue
                if s is None:
                    continue
                if t == 'PAYLOAD':
                    if f.get('complete') and not f.get('follows'):
                        s.in_done = True
                        if s.role == 'requester' and s.kind in ('rr', 'stream'):
                            s.dead, s.why = True, 'response completed'
                        elif s.out_done:
                            s.dead, s.why = True, 'both directions completed'
                    elif s.role == 'requester' and s.kind == 'rr' and f.get('next') and not f.get('follows'):
                        s.in_done = True
                        s.dead, s.why = True, 'response received'
                elif t == 'ERROR':
                    # the statement lists own ERROR, own CANCEL and both-directions-completed as
                    # the points after which nothing may be emitted; a peer's ERROR ends the
                    # peer's direction (what the peer's CANCEL obliges us to is C09's subject)
                    s.in_done = True
                    if s.out_done or (s.role == 'requester' and s.kind in ('rr', 'stream')):
                        s.dead, s.why = True, 'both directions completed'
            elif k == 'enq' and ev['ep'] == ep:
                f = ev['f']
                t, sid = f['type'], f['sid']
                facts = dict(ep=ep, type=t, lease=lease)
                if ep == 'client':
                    if first_enq and t != 'SETUP':
                        V('first_frame_not_setup', 'client queued %s before SETUP' % t, ev['seq'], **facts)
                    if t == 'SETUP':
                        setup_count += 1
                        if setup_count > 1 and not an.plan.get('reconnects'):
                            V('setup_repeated', 'SETUP queued %d times on one connection' % setup_count, ev['seq'], **facts)
                elif t == 'SETUP':
                    V('server_sent_setup', 'server queued SETUP', ev['seq'], **facts)
                first_enq = False
                if t in ('SETUP', 'KEEPALIVE', 'LEASE', 'METADATA_PUSH', 'RESUME', 'RESUME_OK'):
                    if sid != 0:
                        V('connection_frame_on_stream', '%s queued on stream %d' % (t, sid), ev['seq'], **facts)
                    continue
                if sid == 0:
                    if t != 'ERROR':
                        V('stream_frame_on_stream0', '%s queued on stream 0' % t, ev['seq'], **facts)
                    continue
                s = st.get(sid)
                if t in REQ_TYPES:
                    if sid % 2 != parity:
                        V('wrong_parity', '%s opened stream %d' % (ep, sid), ev['seq'], **facts)
                    if s is not None and not s.dead:
                        V('request_on_live_stream', '%s queued on stream %d which is still active' % (t, sid), ev['seq'], **facts)
                    if t in ('REQUEST_STREAM', 'REQUEST_CHANNEL') and not (f.get('n') and f['n'] > 0):
                        V('nonpositive_initial_n', '%s with initial request-n %r' % (t, f.get('n')), ev['seq'], **facts)
                    s = st[sid] = _S('requester', KIND_BY_TYPE[t])
                    if t == 'REQUEST_FNF':
                        s.dead, s.why = True, 'fire-and-forget sent'
                    if t == 'REQUEST_CHANNEL' and f.get('complete'):
                        s.out_done = True
                    continue
                if s is None:
                    # ERROR[REJECTED...] answering a request we refused is legal; anything else is not
                    if t == 'ERROR':
                        continue
                    followed = any(e2['k'] == 'enq' and e2['ep'] == ep and e2['seq'] > ev['seq'] and e2['f']['sid'] == sid
                                   and e2['f']['type'] in REQ_TYPES for e2 in an.by_kind['enq'])
                    V('frame_before_request', '%s queued on stream %d before its request frame' % (t, sid), ev['seq'],
                      request_waiting_for_lease=bool(lease and followed), **facts)
                    continue
                facts['role'] = s.role
                facts['kind'] = s.kind
                if t not in ALLOWED[(s.role, s.kind)]:
                    V('type_not_allowed', '%s %s emitted %s' % (s.kind, s.role, t), ev['seq'], **facts)
                    continue
                if s.dead:
                    V('frame_after_termination', '%s queued on stream %d after %s' % (t, sid, s.why), ev['seq'],
                      why=s.why, **facts)
                    continue
                if t == 'PAYLOAD':
                    if s.out_done:
                        V('payload_after_complete', 'PAYLOAD queued on stream %d after own completion' % sid, ev['seq'], **facts)
                    if f.get('complete'):
                        s.out_done = True
                        if s.role == 'responder' and s.kind in ('rr', 'stream'):
                            s.dead, s.why = True, 'own completion'
                        elif s.in_done:
                            s.dead, s.why = True, 'both directions completed'
                    elif s.role == 'responder' and s.kind == 'rr':
                        V('rr_response_without_complete', 'request-response answered without complete flag', ev['seq'], **facts)
                elif t == 'ERROR':
                    s.dead, s.why = True, 'own ERROR'
                elif t == 'CANCEL':
                    if s.role == 'requester':
                        s.dead, s.why = True, 'own CANCEL'
                    else:
                        # responder of a channel cancels the requester's sending direction only
                        s.in_done = True
                        if s.out_done:
                            s.dead, s.why = True, 'both directions completed'
    return out


def _c08_wire_rules(an, V):
    """Reception-independent rules judged on the wire itself (what the peer actually sees): the
    client's first frame is SETUP, and the first frame of every stream an endpoint opens is its
    request frame (a priority insertion or a re-ordering in the send queue must not change that)."""
    lease = bool(an.plan.get('client', {}).get('honor_lease') or an.plan.get('server', {}).get('honor_lease'))
    for ep in ('client', 'server'):
        parity = 1 if ep == 'client' else 0
        d = 'c2s' if ep == 'client' else 's2c'
        opened = set()
        first = True
        for ev in an.by_kind['wire']:
            if not str(ev['dir']).startswith(d):
                continue
            f = ev['f']
            t, sid = f['type'], f['sid']
            if first and ep == 'client' and t != 'SETUP' and not an.plan.get('reconnects'):
                V('wire_first_frame_not_setup', 'first frame the client wrote is %s' % t, ev['seq'], ep=ep, type=t, lease=lease)
            first = False
            if t in ('PAYLOAD', 'REQUEST_CHANNEL') and f.get('complete') and f.get('follows'):
                V('wire_complete_before_last_fragment', '%s on stream %d flagged COMPLETE and FOLLOWS: more payload follows the completion'
                  % (t, sid), ev['seq'], ep=ep, type=t, lease=lease)
            if sid <= 0 or sid % 2 != parity or t == 'UNDECODABLE':
                continue
            if t in REQ_TYPES:
                opened.add(sid)
            elif sid not in opened:
                followed = any(e2['f']['sid'] == sid and e2['f']['type'] in REQ_TYPES and e2['seq'] > ev['seq']
                               and str(e2['dir']).startswith(d) for e2 in an.by_kind['wire'])
                V('wire_stream_starts_without_request', '%s is the first frame written on stream %d' % (t, sid), ev['seq'],
                  ep=ep, type=t, lease=lease, request_waiting_for_lease=bool(lease and followed))
                opened.add(sid)


# ------------------------------------------------------------------------------------------
# C10: no per-stream state survives
# ------------------------------------------------------------------------------------------

def oracle_c10(an):
    out = []
    V = lambda cls, msg, seq=None, **f: out.append(Violation('C10', 'C10.' + cls, msg, seq, **f))
    if not an.fault_free or an.world.incomplete or an.world.stats.get('not_drained'):
        return out  # not quiescent: frames still queued or in flight
    for ev in an.by_kind['final']:
        # every interaction of the plan ran to its end (all of them are leaks), or - when some interaction never
        # ends, e.g. a subscriber that stops granting credit - the frames this endpoint sent and received say that
        # this particular stream has terminated in both directions
        leaked = [sid for sid in ev['streams'] if an.stopped or _wire_terminated(an, ev['ep'], sid)]
        if leaked:
            kinds = [_describe_sid(an, ev['ep'], sid) for sid in leaked]
            half_close = all(k.startswith('channel/') and ('cancelled' in k or '_error' in k or 'handler_' in k)
                             for k in kinds)
            V('stream_leaked', '%s still holds stream(s) %s at quiescence (%s)' % (ev['ep'], leaked, kinds),
              ev['seq'], ep=ev['ep'], what=sorted(set(kinds)), only_channel_ended_by_cancel_or_error=half_close)
        if not an.stopped:
            continue
        if ev['frags']:
            V('fragments_leaked', '%s still holds partial frames for %s' % (ev['ep'], ev['frags']), ev['seq'], ep=ev['ep'])
    # "the stream's id can be used again": with a reduced id space ids come round; the interaction
    # that re-uses an id must be served like any other
    reused = {}
    for (ep, sid), hist in an.sid_hist.items():
        for k in range(1, len(hist)):
            prev, iid = hist[k - 1][1], hist[k][1]
            pia = an.ia.get(prev, {})
            abnormal = an.cancel_seq(prev) is not None or an.cancel_seq(prev, 'responder') is not None or any(
                (pia.get(n) or {}).get('error_at') is not None for n in ('resp', 'pub')) or \
                (pia.get('resp') or {}).get('mode') in ('raise', 'fail')
            if not abnormal:
                # after a cancel or an error, frames of the previous occupant may still be in flight and
                # would be attributed to the new stream: unavoidable when a tiny id space comes round
                reused[iid] = (ep, sid)
    if reused:
        an.world.probe('id_reused', len(reused))
        for v in oracle_c01(an):
            iid = v.facts.get('iid')
            if iid in reused:
                V('reused_id_not_served', 'interaction %d on the re-used id %d: %s' % (iid, reused[iid][1], v.msg), v.seq,
                  via=v.cls, ep=reused[iid][0])
    return out


def _wire_terminated(an, ep, sid):
    """Has the interaction on `sid` terminated, judged only by the frames `ep` itself queued and received?
    (response delivered / completed / error / cancel; for a channel both directions closed, in either order).
    Ids that were used more than once in the run are left to the all-interactions-finished rule."""
    if len(an.sid_hist.get(('client', sid), [])) + len(an.sid_hist.get(('server', sid), [])) != 1:
        return False
    req_ep = 'client' if an.sid_hist.get(('client', sid)) else 'server'
    iid = an.sid_hist[(req_ep, sid)][0][1]
    kind = an.ia.get(iid, {}).get('kind')
    requester = req_ep == ep
    sent = [e['f'] for e in an.by_kind['enq'] if e['ep'] == ep and e['f']['sid'] == sid]
    recv = [e['f'] for e in an.by_kind['rx'] if e['ep'] == ep and e['f']['sid'] == sid]
    if any(f['type'] == 'ERROR' for f in sent + recv):
        return True
    out_done = any(f.get('complete') and f['type'] in ('PAYLOAD', 'REQUEST_CHANNEL') for f in sent) or \
        any(f['type'] == 'CANCEL' for f in recv)
    in_done = any(f.get('complete') and f['type'] in ('PAYLOAD', 'REQUEST_CHANNEL') for f in recv) or \
        any(f['type'] == 'CANCEL' for f in sent)
    if kind == 'rr':
        return (any(f['type'] == 'PAYLOAD' and not f.get('follows') for f in recv) or in_done) if requester else \
            (any(f['type'] == 'PAYLOAD' for f in sent) or out_done)
    if kind == 'stream':
        return in_done if requester else out_done
    if kind == 'channel':
        return in_done and out_done
    return False


def _describe_sid(an, ep, sid):
    for req_ep in ('client', 'server'):
        hist = an.sid_hist.get((req_ep, sid))
        if hist:
            iid = hist[-1][1]
            ia = an.ia.get(iid, {})
            role = 'requester' if req_ep == ep else 'responder'
            ending = []
            if an.cancel_seq(iid) is not None:
                ending.append('cancelled')
            for sc_name in ('resp', 'pub'):
                sc = ia.get(sc_name) or {}
                if sc.get('error_at') is not None:
                    ending.append(sc_name + '_error')
            if ia.get('resp', {}).get('mode') in ('raise', 'fail'):
                ending.append('handler_' + ia['resp']['mode'])
            if ia.get('kind') == 'channel':
                ending.append('pub' if ia.get('pub') else 'nopub')
                ending.append('rpub' if (ia.get('resp') or {}).get('src') else 'norpub')
                ending.append('rsub' if (ia.get('resp') or {}).get('sub') is not None else 'norsub')
            return '%s/%s/%s' % (ia.get('kind'), role, '+'.join(ending) or 'normal')
    return 'unknown'


# ------------------------------------------------------------------------------------------
# C13: stream ids
# ------------------------------------------------------------------------------------------

def oracle_c13(an):
    """Ids on request frames vs a reference allocator.

    The allocator consults the endpoint's table of active streams.  From outside that table is
    known exactly except for short windows (fire-and-forget between its transmission and the
    completion callback; channels while directions close), so two sets are tracked:
    must_live (certainly active) and maybe_live (not certainly finished).  The id handed out must
    be the first id after the previous one (step 2, wrapping at the maximum, skipping 0) that is
    not active: every id skipped on the way must be in maybe_live, the id chosen must not be in
    must_live."""
    out = []
    V = lambda cls, msg, seq=None, **f: out.append(Violation('C13', 'C13.' + cls, msg, seq, **f))
    for ep in ('client', 'server'):
        cfg = an.plan.get(ep, {})
        maximum = cfg.get('max_sid') or 0x7FFFFFFF
        first = 1 if ep == 'client' else 2
        cursor = (first - 2) & 0x7FFFFFFF
        if cfg.get('sid_start') is not None:
            cursor = cfg['sid_start']
        resync = False
        st = {}  # sid -> dict(kind, must, own_done, peer_done)
        facts0 = dict(ep=ep, max_sid=maximum)

        def maybe_live():
            return {sid for sid, x in st.items()}

        def must_live():
            return {sid for sid, x in st.items() if x['must']}

        for ev in an.h:
            k = ev['k']
            if ev['seq'] > an.settled_seq:
                break
            if k == 'act' and ev.get('ep') == ep and ev.get('what') == 'request_failed':
                if 'AllocationFailure' in (ev.get('err') or ''):
                    ml = maybe_live()
                    free = [c for c in range(first, maximum + 1, 2) if c not in ml]
                    if free:
                        V('allocation_failed_with_free_id', 'allocation failed though id(s) %s are free' % free[:4],
                          ev['seq'], **facts0)
                    an.world.probe('alloc_failure')
                    resync = True
                continue
            if k == 'rx' and ev['ep'] == ep:
                f = ev['f']
                sid, t = f['sid'], f['type']
                x = st.get(sid)
                if x is None or sid % 2 != first % 2:
                    continue
                term = t == 'ERROR' or (t == 'PAYLOAD' and not f.get('follows') and (f.get('complete') or x['kind'] == 'rr'))
                if x['kind'] in ('rr', 'stream'):
                    if term:
                        del st[sid]
                elif x['kind'] == 'channel':
                    if t == 'ERROR' or (t == 'PAYLOAD' and f.get('complete') and not f.get('follows')):
                        x['peer_done'] = True
                        x['must'] = False
                    elif t == 'CANCEL':
                        x['own_done'] = True
                        x['must'] = False
                    if x['own_done'] and x['peer_done']:
                        del st[sid]
                continue
            if k == 'enq' and ev['ep'] == ep:
                f = ev['f']
                sid, t = f['sid'], f['type']
                if t in REQ_TYPES:
                    facts = dict(facts0, type=t)
                    if sid == 0:
                        V('zero_id', 'request frame on stream id 0', ev['seq'], **facts)
                        continue
                    if sid % 2 != first % 2:
                        V('wrong_parity', '%s allocated id %d' % (ep, sid), ev['seq'], **facts)
                        continue
                    if sid > maximum:
                        V('beyond_maximum', 'id %d beyond the maximum %d' % (sid, maximum), ev['seq'], **facts)
                    if sid in must_live():
                        V('live_id_reused', 'id %d allocated while still active' % sid, ev['seq'], **facts)
                    elif not resync:
                        ml = maybe_live()
                        c = cursor
                        steps = 0
                        ok = False
                        while steps <= maximum // 2 + 2:
                            c = (c + 2) & maximum
                            steps += 1
                            if c == sid:
                                ok = True
                                break
                            if c != 0 and c not in ml:
                                break
                        if not ok:
                            V('not_next_free_id', 'id %d allocated after %d although %d is free (wrap at %d)'
                              % (sid, cursor, c, maximum), ev['seq'], **facts)
                        if ok and sid < cursor:
                            an.world.probe('id_wrapped')
                        if ok and steps > 1:
                            an.world.probe('id_skipped_live')
                    resync = False
                    cursor = sid
                    if t == 'REQUEST_FNF':
                        # fire-and-forget ids are handed out but never entered in the table of
                        # active streams (nothing can arrive for them): not tracked as live
                        continue
                    st[sid] = {'kind': KIND_BY_TYPE[t], 'must': True, 'own_done': bool(f.get('complete')) and t == 'REQUEST_CHANNEL',
                               'peer_done': False}
                    continue
                x = st.get(sid)
                if x is None or sid % 2 != first % 2:
                    continue
                if x['kind'] in ('rr', 'stream'):
                    if t == 'CANCEL':
                        del st[sid]
                elif x['kind'] == 'channel':
                    if t == 'CANCEL':
                        x['peer_done'] = True
                        x['must'] = False
                    elif t == 'ERROR' or (t == 'PAYLOAD' and f.get('complete')):
                        x['own_done'] = True
                        x['must'] = False
                    if x['own_done'] and x['peer_done']:
                        del st[sid]
    return out


# ------------------------------------------------------------------------------------------
# C07: every interaction terminates at most once at the API
# ------------------------------------------------------------------------------------------

def oracle_c07(an):
    out = []
    V = lambda cls, msg, seq=None, **f: out.append(Violation('C07', 'C07.' + cls, msg, seq, **f))
    subs = defaultdict(list)
    for ev in an.by_kind['sub'] + an.by_kind.get('post_sub', []):
        subs[(ev['iid'], ev['role'], ev['ep'])].append(ev)
    for (iid, role, ep), evs in subs.items():
        kind = an.ia.get(iid, {}).get('kind')
        facts = dict(kind=kind, role=role, at_close=False)
        state = 'new'
        for e in evs:
            cb = e['cb']
            facts['at_close'] = e['seq'] > an.settled_seq
            if state == 'new':
                if cb != 'on_subscribe':
                    V('signal_before_subscribe', 'interaction %d %s: %s before on_subscribe' % (iid, role, cb), e['seq'], **facts)
                state = 'open'
                if cb == 'on_subscribe':
                    continue
            if state == 'done':
                V('signal_after_terminal', 'interaction %d %s subscriber: %s after the terminal signal %s'
                  % (iid, role, cb, terminal), e['seq'], first=terminal, second=cb, **facts)
                break
            if cb == 'on_subscribe':
                V('subscribed_twice', 'interaction %d %s: on_subscribe twice' % (iid, role), e['seq'], **facts)
            elif cb in ('on_complete', 'on_error') or (cb == 'on_next' and e.get('complete')):
                state = 'done'
                terminal = cb if cb != 'on_next' else 'on_next[complete]'
    # request-response awaitables: resolved exactly once by the end of the run
    for iid, ia in an.ia.items():
        if ia['kind'] != 'rr' or not an.requested(iid) or an.request_failed(iid):
            continue
        futs = [e for e in an.by_kind['fut'] + an.by_kind.get('post_fut', []) if e['iid'] == iid and e['role'] == 'requester']
        if len(futs) > 1:
            V('future_resolved_twice', 'request-response %d resolved %d times' % (iid, len(futs)), futs[1]['seq'], kind='rr')
        req_act = next((e for e in an.acts.get(iid, []) if e['what'] == 'request'), None)
        req_ep = req_act['ep'] if req_act else None
        closed_before = any(e for e in an.by_kind['hnd'] if e['method'] == 'on_close' and e['ep'] == req_ep
                            and req_act is not None and e['seq'] < req_act['seq'])
        if closed_before:
            continue  # issued on an endpoint that had already been closed: outside the statement
        if not futs and an.world.plan.get('end_close', True) and an.world.incomplete is None:
            V('future_never_resolved', 'request-response %d still pending after the connection was closed' % iid, None, kind='rr')
    for ev in an.by_kind['log'] + an.by_kind.get('post_log', []) + an.by_kind.get('loopexc', []) + an.by_kind.get('post_loopexc', []):
        txt = '%s %s %s' % (ev.get('msg'), ev.get('exc'), ev.get('exception'))
        if 'InvalidStateError' in txt:
            V('invalid_state', 'a future was resolved twice inside the library: %s' % txt[:160], ev['seq'], kind='rr')
            break
    return out


# ------------------------------------------------------------------------------------------
# C09: cancellation stops the stream at both ends
# ------------------------------------------------------------------------------------------

def oracle_c09(an):
    out = []
    V = lambda cls, msg, seq=None, **f: out.append(Violation('C09', 'C09.' + cls, msg, seq, **f))
    for iid, ia in an.ia.items():
        kind = ia['kind']
        if kind not in ('rr', 'stream', 'channel') or iid not in an.sid_of:
            continue
        req_ep, sid = an.sid_of[iid]
        lo, hi = _life_span(an, req_ep, sid, iid)
        for role in ('requester', 'responder'):
            cseq = an.cancel_seq(iid, role)
            if cseq is None:
                continue
            ep = req_ep if role == 'requester' else other(req_ep)
            peer = other(ep)
            src = _src_for(an, iid, 'responder' if role == 'requester' else 'requester')
            facts = dict(kind=kind, canceller=role, src=src, lease=bool(an.plan.get(ep, {}).get('honor_lease')))
            cancels = [e for e in an.by_kind['enq'] if e['ep'] == ep and e['f']['sid'] == sid and e['f']['type'] == 'CANCEL'
                       and lo <= e['seq'] < hi]
            reqf = [e for e in an.by_kind['enq'] if e['ep'] == ep and e['f']['sid'] == sid and e['f']['type'] in REQ_TYPES
                    and lo <= e['seq'] < hi]
            # with honor_lease the request frame may still sit in the lease queue when CANCEL is queued
            facts['cancel_overtook_lease_queued_request'] = bool(facts['lease'] and cancels and reqf
                                                                 and cancels[0]['seq'] < reqf[0]['seq'])
            # terminal frame of the stream pulled by the canceller between the action and the first
            # opportunity to queue the CANCEL (request-response: next loop iteration) -> 0 or 1
            act_it = next(e['it'] for e in an.acts[iid] if e['seq'] == cseq)
            raced = any(e for e in an.by_kind['rx'] if e['ep'] == ep and e['f']['sid'] == sid and e['seq'] > cseq
                        and e['it'] <= act_it + 1 and e['f']['type'] in ('PAYLOAD', 'ERROR'))
            if len(cancels) > 1:
                V('cancel_repeated', 'interaction %d: %d CANCEL frames for one cancel()' % (iid, len(cancels)),
                  cancels[1]['seq'], **facts)
            elif not cancels and not (kind == 'rr' and raced):
                V('cancel_not_sent', 'interaction %d: cancel() produced no CANCEL frame' % iid, cseq, **facts)
            # silence at the canceller afterwards
            for e in an.subs.get((iid, role), []):
                if e['seq'] > cseq and e['ep'] == ep:
                    V('signal_after_cancel', 'interaction %d: %s delivered to the canceller after cancel()' % (iid, e['cb']),
                      e['seq'], cb=e['cb'], **facts)
                    break
            if kind == 'rr':
                for e in an.futs.get((iid, 'requester'), []):
                    if e['state'] != 'cancelled':
                        V('signal_after_cancel', 'request-response %d resolved (%s) after cancel()' % (iid, e['state']),
                          e['seq'], cb=e['state'], **facts)
            if role != 'requester' or not cancels:
                continue
            # peer side: production stops
            crx = next((e for e in an.by_kind['rx'] if e['ep'] == peer and e['f']['sid'] == sid and e['f']['type'] == 'CANCEL'
                        and e['seq'] > cancels[0]['seq']), None)
            if crx is None:
                if an.fault_free and an.world.incomplete is None:
                    V('cancel_not_received', 'interaction %d: CANCEL never reached the peer' % iid, cancels[0]['seq'], **facts)
                continue
            later = [e for e in an.by_kind['enq'] if e['ep'] == peer and e['f']['sid'] == sid and e['seq'] > crx['seq']
                     and e['seq'] < hi and e['f']['type'] == 'PAYLOAD' and is_content(e['f'])]
            resolved_before = [e for e in an.pubs.get((iid, 'responder'), []) if e.get('src') == 'future'
                               and e['cb'] in ('emit', 'resolve_error') and e['seq'] < crx['seq']]
            if kind == 'rr' and resolved_before:
                later = []  # the response existed before CANCEL arrived; sending it late is harmless
            if later:
                V('production_continued', 'interaction %d: peer queued %d more payload(s) after it received CANCEL'
                  % (iid, len(later)), later[0]['seq'], **facts)
            # was the peer's production already finished when CANCEL arrived?
            handler_seen = [e for e in an.hnds.get(iid, []) if e['seq'] < crx['seq']]
            if kind == 'rr':
                pf = an.futs.get((iid, 'responder'), [])
                if handler_seen and ia.get('resp', {}).get('mode') not in ('raise',):
                    if not resolved_before:
                        if not any(e['state'] == 'cancelled' for e in pf):
                            # the handler coroutine may still be running (hdelay): then there is no future yet
                            returned = _handler_returned_before(an, iid, crx['seq'])
                            if returned:
                                V('producer_not_cancelled', 'request-response %d: handler future not cancelled by CANCEL' % iid,
                                  crx['seq'], **facts)
            else:
                prod = an.pubs.get((iid, 'responder'), [])
                subscribed = [e for e in prod if e['cb'] == 'subscribe' and e['seq'] < crx['seq']]
                finished = [e for e in prod if e['cb'] in ('complete', 'error', 'on_complete', 'exhausted', 'error_signal')
                            and e['seq'] < crx['seq']]
                flagged_last = _emitted_all_flagged(an, iid, prod, crx['seq'])
                if subscribed and not finished and not flagged_last:
                    if not any(e['cb'] in ('cancel', 'on_cancel') and e['seq'] > crx['seq'] for e in prod):
                        V('producer_not_cancelled', 'interaction %d: responder publisher (%s) not cancelled by CANCEL'
                          % (iid, src), crx['seq'], **facts)
    # "Cancelling one stream does not disturb any other stream": whatever was not cancelled is served as if nothing happened
    cancelled = {iid for iid in an.ia if an.cancel_seq(iid) is not None or an.cancel_seq(iid, 'responder') is not None
                 or any(e['what'] == 'cancel_sent_future' for e in an.acts.get(iid, ()))}
    if cancelled and an.fault_free and not an.world.incomplete and an.plan.get('profile') in ('core-cancel', 'cancel-sweep'):
        for v in oracle_c01(an):
            iid = v.facts.get('iid')
            if iid is not None and iid not in cancelled:
                V('other_stream_disturbed', 'interaction %d was not cancelled, yet: %s' % (iid, v.msg), v.seq, via=v.cls,
                  kind=an.ia[iid]['kind'], cancelled_kinds=','.join(sorted({an.ia[c]['kind'] for c in cancelled})))
    return out


def _handler_returned_before(an, iid, seq):
    """True if the responder's handler coroutine had returned its future before `seq` (the stream
    was registered): approximated by 'the handler has no scripted suspension'."""
    ia = an.ia[iid]
    return not ia.get('resp', {}).get('hdelay')


def _emitted_all_flagged(an, iid, prod, seq):
    sc = an.ia[iid].get('resp') or {}
    if sc.get('end') != 'flag':
        return False
    emits = [e for e in prod if e['cb'] == 'emit' and e['seq'] < seq]
    return len(emits) >= sc.get('count', 0) > 0


# ------------------------------------------------------------------------------------------
# C11: connection loss or close fails everything pending, exactly once
# ------------------------------------------------------------------------------------------

def oracle_c11(an):
    out = []
    V = lambda cls, msg, seq=None, **f: out.append(Violation('C11', 'C11.' + cls, msg, seq, **f))
    faults = [e for e in an.by_kind.get('fault', []) if e['what'] in ('cut', 'close', 'reset', 'eof', 'ws_error')]
    if not faults or an.world.incomplete:
        return out
    f0 = faults[0]
    fseq = f0['seq']
    mark = next((e for e in an.h if e['k'] == 'mark' and e.get('what') == 'settled'), None)
    if mark is None or f0['t'] > mark['t'] - 0.5 * an.plan.get('settle', 4.0):
        an.world.probe('fault_after_workload')  # no settle window left after it: nothing to judge
        return out
    cause = f0['what'] + ('_' + f0['mode'] if f0.get('mode') else '')
    framing = an.plan.get('framing', 'tcp')
    allsub = defaultdict(list)
    for ev in an.by_kind['sub'] + an.by_kind.get('post_sub', []):
        allsub[(ev['iid'], ev['role'])].append(ev)
    allfut = defaultdict(list)
    for ev in an.by_kind['fut'] + an.by_kind.get('post_fut', []):
        allfut[(ev['iid'], ev['role'])].append(ev)
    allpub = defaultdict(list)
    for ev in an.by_kind['pub'] + an.by_kind.get('post_pub', []):
        allpub[(ev['iid'], ev['role'])].append(ev)
    settled = an.settled_seq
    for iid, ia in an.ia.items():
        kind = ia['kind']
        req = next((e for e in an.acts.get(iid, []) if e['what'] == 'request'), None)
        if req is not None and req['seq'] > fseq and not an.request_failed(iid):
            # issued on an endpoint whose connection was already gone: not pending at the loss, but pending when that
            # endpoint's own close() is called later - which must fail it like any other
            own_close = next((e for e in faults if e['what'] == 'close' and e.get('who') == an.requester(iid)
                              and e['seq'] > req['seq']), None)
            if own_close is not None and own_close['t'] <= mark['t'] - 0.5 * an.plan.get('settle', 4.0):
                facts = dict(kind=kind, cause=cause, framing=framing, by=an.requester(iid), after_loss=True)
                if kind == 'rr':
                    if not [e for e in allfut.get((iid, 'requester'), []) if e['seq'] < settled]:
                        V('request_left_hanging', 'request-response %d issued after the loss (%s) is still pending %.1fs after %s called close()'
                          % (iid, cause, an.plan.get('settle', 0), an.requester(iid)), None, **facts)
                elif kind in ('stream', 'channel') and an.cancel_seq(iid) is None:
                    evs = [e for e in allsub.get((iid, 'requester'), []) if e['seq'] < settled]
                    term = [e for e in evs if e['cb'] in ('on_complete', 'on_error') or (e['cb'] == 'on_next' and e.get('complete'))]
                    if evs and not term:
                        V('subscriber_left_hanging', '%s %d issued after the loss (%s): no terminal signal although %s called close()'
                          % (kind, iid, cause, an.requester(iid)), None, **facts)
            continue
        if req is None or req['seq'] > fseq or an.request_failed(iid):
            continue  # started after the loss: outside the statement ("pending at that moment")
        facts = dict(kind=kind, cause=cause, framing=framing, by=an.requester(iid))
        cancelled = an.cancel_seq(iid) is not None
        # (1) requester side: nothing left hanging after the settle window
        if kind == 'rr':
            futs = [e for e in allfut.get((iid, 'requester'), []) if e['seq'] < settled]
            if not futs:
                V('request_left_hanging', 'request-response %d still pending %.1fs after the connection was lost (%s)'
                  % (iid, an.plan.get('settle', 0), cause), None, **facts)
        elif kind in ('stream', 'channel') and not cancelled:
            evs = [e for e in allsub.get((iid, 'requester'), []) if e['seq'] < settled]
            term = [e for e in evs if e['cb'] in ('on_complete', 'on_error') or (e['cb'] == 'on_next' and e.get('complete'))]
            if evs and not term:
                V('subscriber_left_hanging', '%s %d: requester subscriber got no terminal signal after the loss (%s)'
                  % (kind, iid, cause), None, **facts)
        # (2) responder side: whoever was producing has been cancelled
        if kind == 'rr':
            pf = allfut.get((iid, 'responder'), [])
            handler = [e for e in an.hnds.get(iid, []) if e['seq'] < fseq]
            resolved = [e for e in allpub.get((iid, 'responder'), []) if e.get('src') == 'future']
            mode = ia.get('resp', {}).get('mode', 'now')
            if handler and mode in ('never', 'delay', 'hops') and not ia.get('resp', {}).get('hdelay'):
                done_before = [e for e in resolved if e['seq'] < fseq]
                if not done_before and not [e for e in pf if e['seq'] < settled]:
                    V('producer_not_cancelled', 'request-response %d: handler future neither resolved nor cancelled after the loss (%s)'
                      % (iid, cause), None, role='responder', **facts)
        elif kind in ('stream', 'channel'):
            for role, script in (('responder', ia.get('resp')), ('requester', ia.get('pub'))):
                if not script or script.get('src') is None:
                    continue
                prod = allpub.get((iid, role), [])
                subscribed = [e for e in prod if e['cb'] == 'subscribe' and e['seq'] < fseq]
                if not subscribed:
                    continue
                finished = [e for e in prod if e['cb'] in ('complete', 'error', 'on_complete', 'exhausted', 'error_signal', 'cancel',
                                                           'on_cancel') and e['seq'] < fseq]
                if finished or _emitted_all_flagged_role(an, iid, role, prod, fseq):
                    continue
                after = [e for e in prod if e['cb'] in ('cancel', 'on_cancel', 'complete', 'error', 'on_complete', 'exhausted',
                                                        'error_signal') and fseq < e['seq'] < settled]
                if not after and not _emitted_all_flagged_role(an, iid, role, prod, settled):
                    V('producer_not_cancelled', '%s %d: %s publisher (%s) still subscribed and not cancelled after the loss (%s)'
                      % (kind, iid, role, script.get('src'), cause), None, role=role, src=script.get('src'), **facts)
    # (3) close notification exactly once per endpoint
    for ep in ('client', 'server'):
        closes = [e for e in an.by_kind['hnd'] + an.by_kind.get('post_hnd', []) if e['ep'] == ep and e['method'] == 'on_close']
        observed = [e for e in closes if e['seq'] < settled]
        facts = dict(ep=ep, cause=cause, framing=framing)
        if not observed:
            V('close_not_notified', '%s: on_close not delivered after the connection was lost (%s)' % (ep, cause), None, **facts)
        if len(closes) > 1:
            V('close_notified_twice', '%s: on_close delivered %d times' % (ep, len(closes)), closes[1]['seq'],
              second_at_final_close=closes[1]['seq'] > settled, **facts)
        # (4) silence after the close completed
        if observed:
            c = observed[0]
            # the endpoint's own cleanup runs when the application's on_close() has returned
            ret = next((e for e in an.by_kind['hnd'] + an.by_kind.get('post_hnd', []) if e['ep'] == ep
                        and e['method'] == 'on_close_returned' and e['seq'] > c['seq']), None)
            if ret is not None:
                c = ret
            # frames handed to the transport, and frames the library itself originates (keepalives);
            # a frame queued by an application call made after the close is not "the endpoint sending"
            late = [e for e in an.by_kind['tx'] + [x for x in an.by_kind['enq'] if x['f']['type'] == 'KEEPALIVE']
                    if e['ep'] == ep and e['seq'] > c['seq'] and e['t'] > c['t'] + 0.002 and e['seq'] < settled]
            if late:
                V('sends_after_close', '%s queued/wrote %d frame(s) (first: %s) after its close notification'
                  % (ep, len(late), late[0]['f']['type']), late[0]['seq'], type=late[0]['f']['type'], **facts)
        # (5) tasks finished
        fin = [e for e in an.by_kind['final'] if e['ep'] == ep]
        if fin and observed:
            pend = [k for k, v in fin[0]['tasks'].items() if v == 'pending']
            if pend:
                V('tasks_alive', '%s: %s still running after the connection was lost' % (ep, pend), fin[0]['seq'],
                  tasks=','.join(pend), **facts)
    return out


def _emitted_all_flagged_role(an, iid, role, prod, seq):
    sc = (an.ia[iid].get('resp') if role == 'responder' else an.ia[iid].get('pub')) or {}
    if sc.get('end') != 'flag':
        return False
    emits = [e for e in prod if e['cb'] == 'emit' and e['seq'] < seq]
    return len(emits) >= sc.get('count', 0) > 0


def oracle_c01_close(an):
    """Delivery across an orderly close: a fire-and-forget or metadata-push whose frame had been
    handed to the transport completely (its sent-future was done) before the same endpoint closed the
    connection is still delivered - an orderly close delivers everything written before it."""
    out = []
    V = lambda cls, msg, seq=None, **f: out.append(Violation('C01', 'C01.' + cls, msg, seq, **f))
    closes = [e for e in an.by_kind.get('fault', []) if e['what'] == 'close']
    if not closes:
        return out
    c = closes[0]
    for iid, ia in an.ia.items():
        if ia['kind'] not in ('fnf', 'push') or an.requester(iid) != c.get('who'):
            continue
        sent = next((e for e in an.futs.get((iid, 'requester'), []) if e['state'] == 'sent'), None)
        if sent is None or sent['seq'] > c['seq']:
            continue
        method = 'request_fire_and_forget' if ia['kind'] == 'fnf' else 'on_metadata_push'
        if ia['kind'] == 'push':
            exp_md = app.nb(app.content(iid, 'q', 0, 'M', max(app.TAG_LEN, ia.get('req', {}).get('mlen') or app.TAG_LEN)))
            got = [e for e in an.by_kind['hnd'] + an.by_kind.get('post_hnd', []) if e['method'] == method and e.get('metadata') == exp_md]
        else:
            got = [e for e in an.hnds.get(iid, []) + [x for x in an.by_kind.get('post_hnd', []) if x.get('iid') == iid]
                   if e['method'] == method]
        facts = dict(kind=ia['kind'], by=an.requester(iid), framing=an.plan.get('framing', 'tcp'), iid=iid)
        if not got:
            V('lost_at_close', '%s %d was written completely before %s closed the connection, but never reached the peer handler'
              % (ia['kind'], iid, c.get('who')), sent['seq'], **facts)
        elif len(got) > 1:
            V('request_duplicated', '%s %d delivered %d times' % (ia['kind'], iid, len(got)), got[1]['seq'], **facts)
    return out


def oracle_c03_huge(an):
    """C03 for logical frames beyond the 24-bit length of a single wire frame: the wire rules, and the reassembled frame
    reaches the application intact (the delivery oracle's verdicts, reported under C03)."""
    out = list(oracle_c03(an))
    for v in oracle_c01(an):
        out.append(Violation('C03', 'C03.large_frame_not_reassembled', v.msg, v.seq, via=v.cls, **{k: x for k, x in v.facts.items() if k != 'via'}))
    return out


# registry ------------------------------------------------------------------------------

ORACLES = {
    'C01': oracle_c01,
    'C03': oracle_c03,
    'C05': oracle_c05,
    'C06': oracle_c06,
    'C08': oracle_c08,
    'C10': oracle_c10,
    'C13': oracle_c13,
    'C07': oracle_c07,
    'C09': oracle_c09,
    'C11': oracle_c11,
}
