"""'peer' executor: one REAL endpoint (client or server) against a scripted RawPeer that speaks
through the harness's own codec.  Used by the lease, keepalive, setup, hostile and peer-script
profiles."""
import asyncio
from datetime import timedelta

from .world import World, SimCap
from . import net, app, refcodec as rc


def build_frame(spec):
    """spec: dict with 't' (type name) and fields -> body bytes (RefCodec). 'raw' hex passes through."""
    if 'raw' in spec:
        return bytes.fromhex(spec['raw'])
    t = spec['t']
    md = bytes.fromhex(spec['md']) if spec.get('md') is not None else None
    data = bytes.fromhex(spec.get('data', ''))
    sid = spec.get('sid', 0)
    if t == 'SETUP':
        return rc.enc_setup(keepalive_ms=spec.get('keepalive_ms', 500), lifetime_ms=spec.get('lifetime_ms', 60000),
                            metadata_mime=spec.get('metadata_mime', 'application/json').encode(),
                            data_mime=spec.get('data_mime', 'application/json').encode(),
                            metadata=md, data=data, lease=spec.get('lease', False), resume=spec.get('resume', False),
                            token=bytes.fromhex(spec.get('token', '')), major=spec.get('major', 1), minor=spec.get('minor', 0))
    if t == 'LEASE':
        return rc.enc_lease(spec['ttl_ms'], spec['n'], md)
    if t == 'KEEPALIVE':
        return rc.enc_keepalive(spec.get('respond', False), data, spec.get('position', 0), sid=sid)
    if t in rc.REQUEST_TYPES:
        return rc.enc_request(t, sid, md, data, n=spec.get('n'), follows=spec.get('follows', False),
                              complete=spec.get('complete', False))
    if t == 'REQUEST_N':
        return rc.enc_request_n(sid, spec['n'])
    if t == 'CANCEL':
        return rc.enc_cancel(sid)
    if t == 'PAYLOAD':
        return rc.enc_payload(sid, md, data, next=spec.get('next', True), complete=spec.get('complete', False),
                              follows=spec.get('follows', False))
    if t == 'ERROR':
        return rc.enc_error(sid, spec.get('code', 'APPLICATION_ERROR'), data)
    if t == 'METADATA_PUSH':
        return rc.enc_metadata_push(md or b'', sid=sid)
    if t == 'RESUME':
        return rc.enc_resume(bytes.fromhex(spec.get('token', '746f6b')))
    if t == 'RESUME_OK':
        return rc.enc_resume_ok(spec.get('position', 0))
    raise ValueError('unknown frame spec %r' % (spec,))


class RawPeer:
    """Scripted counterpart of the real endpoint. peer_role is 'server' when the real endpoint is
    the client and vice versa."""

    def __init__(self, world, link, peer_role, auto):
        self.world = world
        self.link = link
        self.role = peer_role
        self.auto = auto or {}
        self.out_dir = 's2c' if peer_role == 'server' else 'c2s'
        self.in_dir = 'c2s' if peer_role == 'server' else 's2c'
        self.tcp = isinstance(link, net.ByteLink)
        self.seen = []  # frames the real endpoint wrote, as the peer receives them
        if self.tcp:
            link.pipe(self.in_dir).on_frame = self._on_frame
        else:
            ws = link.client_ws if peer_role == 'server' else link.server_ws
            ws.on_frame = self._on_frame
        self.keepalives_seen = 0

    def send(self, body):
        """Write one frame body towards the real endpoint."""
        if self.tcp:
            pipe = self.link.pipe(self.out_dir)
            pipe.write(rc.with_len(body))
        else:
            ws = self.link.server_ws if self.role == 'server' else self.link.client_ws
            ws.raw_send(body)

    def send_spec(self, spec):
        self.world.rec('peer', what='send', spec={k: v for k, v in spec.items() if k not in ('data', 'md', 'raw')},
                       t_=spec.get('t', 'RAW'))
        if 'text' in spec:
            # a websocket TEXT message (message framing only): not an RSocket frame at all
            if not self.tcp:
                ws = self.link.server_ws if self.role == 'server' else self.link.client_ws
                ws.raw_send_text(spec['text'])
            return
        self.send(build_frame(spec))

    def _on_frame(self, f):
        """Called at write time of the real endpoint; the peer reacts after its own think time."""
        self.seen.append(f)
        auto = self.auto
        loop = self.world.loop
        t = f['type']
        if t == 'KEEPALIVE' and f.get('respond'):
            self.keepalives_seen += 1
            ka = auto.get('keepalive', 'echo')
            now = loop.time()
            if ka == 'none':
                return
            if isinstance(ka, dict):
                if ka.get('until') is not None and now >= ka['until']:
                    return
                if ka.get('from') is not None and now < ka['from']:
                    return
                delay = ka.get('delay', 0.0)
            else:
                delay = 0.0
            data = f.get('data') or b''
            body = rc.enc_keepalive(False, data, 0)
            loop.call_later(delay, self.send, body)
        elif t in ('REQUEST_RESPONSE', 'REQUEST_STREAM', 'REQUEST_CHANNEL') and auto.get('respond'):
            if f.get('follows'):
                return
            mode = auto['respond']
            sid = f['sid']
            delay = auto.get('respond_delay', 0.0)
            if mode == 'complete':
                loop.call_later(delay, self.send, rc.enc_payload(sid, None, b'ok', next=True, complete=True))
            elif mode == 'error':
                loop.call_later(delay, self.send, rc.enc_error(sid, 'APPLICATION_ERROR', b'no'))
        elif t == 'PAYLOAD' and auto.get('respond') and not f.get('follows'):
            # continuation of a fragmented request: answer when its last fragment arrives
            first = next((x for x in self.seen if x['sid'] == f['sid'] and x['type'] in rc.REQUEST_TYPES), None)
            if first is not None and first.get('follows') and first['type'] != 'REQUEST_FNF':
                already = getattr(self, '_answered', set())
                if f['sid'] not in already:
                    already.add(f['sid'])
                    self._answered = already
                    self.world.loop.call_later(auto.get('respond_delay', 0.0), self.send,
                                               rc.enc_payload(f['sid'], None, b'ok', next=True, complete=True))


def run_peer(plan):
    world = World(plan)
    world.rr_futures = {}
    world.subscribers = {}
    world.handlers = {}
    world.install()
    try:
        _run_peer(world, plan)
    except SimCap as e:
        world.incomplete = str(e)
    finally:
        world.final_digest = world.digest()
        world.uninstall()
    return world


def _make_lease_publisher(world, script):
    """Publisher emitting DefinedLease values at scripted instants (responder lease profile)."""
    from rsocket.lease import DefinedLease

    class ScriptedLeasePublisher:
        def subscribe(self, subscriber):
            world.rec('pub', ep='endpoint', iid=None, role='lease', cb='subscribe', src='lease')
            for item in script:
                if item.get('sync'):
                    # a publisher that already has a lease emits it from inside subscribe()
                    world.rec('pub', ep='endpoint', iid=None, role='lease', cb='emit', src='lease', n=item['n'], ttl_us=item['ttl_us'])
                    subscriber.on_next(DefinedLease(maximum_request_count=item['n'],
                                                    maximum_lease_time=timedelta(microseconds=item['ttl_us'])))
                    continue

                # a publisher that prepares its lease objects ahead of time and publishes them from a schedule
                ready = DefinedLease(maximum_request_count=item['n'], maximum_lease_time=timedelta(microseconds=item['ttl_us'])) \
                    if item.get('precreate') else None

                def emit(item=item, ready=ready):
                    world.rec('pub', ep='endpoint', iid=None, role='lease', cb='emit', src='lease', n=item['n'],
                              ttl_us=item['ttl_us'])
                    subscriber.on_next(ready or DefinedLease(maximum_request_count=item['n'],
                                                             maximum_lease_time=timedelta(microseconds=item['ttl_us'])))

                world.loop.call_at(item['at'], emit)

    from reactivestreams.publisher import Publisher
    Publisher.register(ScriptedLeasePublisher)
    return ScriptedLeasePublisher()


def _run_peer(world, plan):
    from rsocket.rsocket_client import RSocketClient
    from rsocket.rsocket_server import RSocketServer
    from rsocket.payload import Payload
    loop = world.loop
    role = plan['role']  # role of the REAL endpoint
    lk = plan.get('link', {})
    if plan.get('framing', 'tcp') == 'tcp':
        link = net.ByteLink(world, lk.get('c2s'), lk.get('s2c'))
    else:
        link = net.MessageLink(world, lk.get('c2s'), lk.get('s2c'))
    world.link = link
    cfg = plan.get('endpoint', {})
    scripts = {ia['id']: ia for ia in plan.get('interactions', []) if ia.get('by') == 'peer'}
    H = app.handler_class()

    def factory():
        h = H(world, role, scripts, cfg.get('buggify'))
        world.handlers[role] = h
        hook = plan.get('on_keepalive_timeout')
        if hook == 'reconnect':
            async def do(rs):
                await rs.reconnect()
            h.on_keepalive_timeout_hook = do
        return h

    kw = dict(handler_factory=factory, fragment_size_bytes=cfg.get('fragment'))
    if cfg.get('keepalive_us') is not None:
        kw['keep_alive_period'] = timedelta(microseconds=cfg['keepalive_us'])
    else:
        kw['keep_alive_period'] = timedelta(milliseconds=cfg.get('keepalive_ms', 1_000_000))
    if cfg.get('lifetime_us') is not None:
        kw['max_lifetime_period'] = timedelta(microseconds=cfg['lifetime_us'])
    else:
        kw['max_lifetime_period'] = timedelta(milliseconds=cfg.get('lifetime_ms', 10_000_000))
    if cfg.get('honor_lease'):
        kw['honor_lease'] = True
    if cfg.get('request_queue_size') is not None:
        kw['request_queue_size'] = cfg['request_queue_size']
    if cfg.get('lease_script') is not None:
        kw['lease_publisher'] = _make_lease_publisher(world, cfg['lease_script'])
    for key in ('data_encoding', 'metadata_encoding'):
        if cfg.get(key) is not None:
            v = cfg[key]
            if isinstance(v, dict):
                if 'bytes' in v:
                    v = bytes.fromhex(v['bytes'])
                elif 'wellknown' in v:
                    from rsocket.extensions.mimetypes import WellKnownMimeTypes
                    v = getattr(WellKnownMimeTypes, v['wellknown'])
            kw[key] = v
    if cfg.get('setup_payload') is not None:
        sp = cfg['setup_payload']
        kw['setup_payload'] = Payload(bytes.fromhex(sp.get('data', '')) if sp.get('data') is not None else None,
                                      bytes.fromhex(sp['md']) if sp.get('md') is not None else None)

    peer_role = 'server' if role == 'client' else 'client'
    peer = RawPeer(world, link, peer_role, plan.get('auto'))
    world.peer = peer
    state = {}

    def make_transport():
        if isinstance(link, net.ByteLink):
            if role == 'client':
                return world.make_tcp_transport('client', link.client_reader, link.client_writer, cfg.get('read_buf', 1024)), None
            return world.make_tcp_transport('server', link.server_reader, link.server_writer, cfg.get('read_buf', 1024)), None
        if role == 'client':
            return world.make_ws_transport('client', link.client_ws, 'client'), None
        t = world.make_ws_transport('server', link.server_ws, 'server')
        return t, t.handle_incoming_ws_messages

    connect_delay = cfg.get('connect_delay')

    def boot():
        transport, pump = make_transport()
        if connect_delay is not None:
            orig_connect = transport.connect

            async def slow_connect():
                kind, amount = connect_delay
                world.rec('tr', ep=role, what='connect_suspended')
                if kind == 'hops':
                    for _ in range(amount):
                        await asyncio.sleep(0)
                else:
                    await asyncio.sleep(amount)
                await orig_connect()

            transport.connect = slow_connect
        if role == 'server':
            ep = RSocketServer(transport, **kw)
            world.tap_endpoint('server', ep)
            if pump is not None:
                state['pump'] = loop.create_task(pump())
        else:
            provider_delay = cfg.get('provider_delay')

            async def provider():
                if provider_delay is not None:
                    world.rec('tr', ep=role, what='provider_suspended')
                    if provider_delay[0] == 'hops':
                        for _ in range(provider_delay[1]):
                            await asyncio.sleep(0)
                    else:
                        await asyncio.sleep(provider_delay[1])
                yield transport

            ep = RSocketClient(provider(), **kw)
            world.tap_endpoint('client', ep)

            async def connect():
                await ep.connect()
                world.rec('act', ep='client', what='connected')

            state['connect'] = loop.create_task(connect())

    loop.call_at(plan.get('boot_at', 0.0), boot)

    t0 = plan.get('t0', 0.0)
    for step in plan.get('script', []):
        def fire(step=step):
            if 'frame' in step:
                peer.send_spec(step['frame'])
            elif 'conn' in step:
                what = step['conn']
                world.rec('fault', what=what, who='peer')
                world.fault_fired(what)
                if isinstance(link, net.ByteLink):
                    if what == 'eof':
                        link.pipe(peer.out_dir).writer_closed()
                    elif what == 'reset':
                        link.reset()
                    elif what == 'silence':
                        link.silence(peer.out_dir, True)
                else:
                    if what == 'eof':
                        ws = link.server_ws if peer_role == 'server' else link.client_ws
                        loop.create_task(ws.close())
                    elif what == 'reset':
                        link.transport_error(role)
            elif 'act' in step:
                _local_action(world, role, step['act'])

        loop.call_at(t0 + step.get('at', 0.0), lambda fire=fire, step=step: loop.call_after_hops(step.get('hops', 0), fire))

    for ia in plan.get('interactions', []):
        if ia.get('by') == 'peer':
            continue

        def starter(ia=ia):
            loop.call_after_hops(ia.get('hops', 0), app.start_interaction, world, role, ia)

        loop.call_at(t0 + ia.get('at', 0.0), starter)

    horizon = plan.get('horizon', 10.0)
    loop.run_sim(until_time=horizon)
    world.rec('mark', what='settled')
    if role in world.endpoints:
        try:
            world.observe_final(role)
        except Exception:
            pass
    if plan.get('end_close', True) and role in world.endpoints:
        async def closer():
            try:
                await world.endpoints[role].close()
            except Exception as e:
                world.rec('log', level='HARNESS', msg='close raised %r' % (e,), exc=None)

        loop.call_soon(lambda: loop.create_task(closer()))
        loop.run_sim(until_time=loop.time() + 1.0)
    for e in loop.exceptions:
        world.rec('loopexc', **e)
    loop.exceptions.clear()


def _local_action(world, role, act):
    ep = world.endpoints.get(role)
    loop = world.loop
    what = act['what']
    world.rec('act', ep=role, what=what, iid=act.get('iid'))
    if ep is None:
        return
    if what == 'close':
        async def do_close():
            try:
                await ep.close()
            except Exception as e:
                world.rec('log', level='HARNESS', msg='close raised %r' % (e,), exc=None)
            world.rec('act', ep=role, what='close_returned')

        loop.create_task(do_close())
    elif what == 'reconnect':
        loop.create_task(ep.reconnect())
    elif what == 'credit':
        sub = world.subscribers.get(act['iid'])
        if sub is not None:
            sub.grant(act['n'])
    elif what == 'cancel':
        sub = world.subscribers.get(act['iid'])
        if sub is not None:
            sub.cancel()
        fut = world.rr_futures.get(act['iid'])
        if fut is not None and not fut.done():
            world.rec('act', ep=role, what='cancel', iid=act['iid'], role='requester')
            fut.cancel()
