"""'parser' profile (C04): one byte stream / message sequence decoded under several read
chunkings by the real TransportTCP + StreamReader + FrameParser (or the real aiohttp transports
over a fake websocket), compared with each other and with the reference decoder."""
import asyncio
import random

from .world import World, SimCap, finfo
from . import net, refcodec as rc
from .oracles import Violation


# ---------------------------------------------------------------------------------------------
# frame sequence generation (RefCodec side)
# ---------------------------------------------------------------------------------------------

def _rb(rng, n):
    return bytes(rng.getrandbits(8) for _ in range(n))


def _len(rng):
    return rng.choice([0, 0, 1, 2, 5, 16, 33, rng.randint(0, 300), rng.randint(0, 1500)])


def gen_valid(rng):
    """One valid frame built by the reference encoder; returns (body, expected summary)."""
    t = rng.choice(['SETUP', 'LEASE', 'KEEPALIVE', 'REQUEST_RESPONSE', 'REQUEST_FNF', 'REQUEST_STREAM',
                    'REQUEST_CHANNEL', 'REQUEST_N', 'CANCEL', 'PAYLOAD', 'PAYLOAD', 'ERROR', 'METADATA_PUSH',
                    'RESUME', 'RESUME_OK'])
    sid = rng.choice([1, 2, 3, 7, 0x7FFFFFFF, rng.randint(1, 0x7FFFFFFF)])
    md = _rb(rng, _len(rng)) if rng.random() < 0.5 else None
    if md == b'':
        md = None if rng.random() < 0.5 else b''
    data = _rb(rng, _len(rng))
    if t == 'SETUP':
        body = rc.enc_setup(keepalive_ms=rng.randint(0, 0x7FFFFFFF), lifetime_ms=rng.randint(0, 0x7FFFFFFF),
                            metadata_mime=_rb(rng, rng.randint(1, 40)), data_mime=_rb(rng, rng.randint(1, 40)),
                            metadata=md, data=data, lease=rng.random() < 0.3, resume=rng.random() < 0.2,
                            token=_rb(rng, rng.randint(0, 20)))
    elif t == 'LEASE':
        body = rc.enc_lease(rng.randint(0, 0x7FFFFFFF), rng.randint(0, 0x7FFFFFFF), md)
    elif t == 'KEEPALIVE':
        body = rc.enc_keepalive(rng.random() < 0.5, data, rng.randint(0, 2 ** 63 - 1))
    elif t in rc.REQUEST_TYPES:
        body = rc.enc_request(t, sid, md, data, n=rng.choice([1, 2, 0x7FFFFFFF, rng.randint(1, 0x7FFFFFFF)]),
                              follows=rng.random() < 0.2, complete=rng.random() < 0.3)
    elif t == 'REQUEST_N':
        body = rc.enc_request_n(sid, rng.choice([1, 0x7FFFFFFF, rng.randint(1, 0x7FFFFFFF)]))
    elif t == 'CANCEL':
        body = rc.enc_cancel(sid)
    elif t == 'PAYLOAD':
        nxt = rng.random() < 0.8
        comp = rng.random() < 0.3
        if not nxt and not comp:
            comp = True
        if not nxt:
            md, data = None, b''
        body = rc.enc_payload(sid, md, data, next=nxt, complete=comp, follows=rng.random() < 0.2)
    elif t == 'ERROR':
        body = rc.enc_error(sid if rng.random() < 0.7 else 0, rng.choice(list(rc.ERR.values())), data)
    elif t == 'METADATA_PUSH':
        body = rc.enc_metadata_push(md or b'x')
    elif t == 'RESUME':
        body = rc.enc_resume(_rb(rng, rng.randint(0, 16)), last_server=rng.randint(0, 2 ** 63 - 1),
                             first_client=rng.randint(0, 2 ** 63 - 1))
    else:
        body = rc.enc_resume_ok(rng.randint(0, 2 ** 63 - 1))
    return body


def gen_junk(rng):
    """A correctly delimited body the library must not turn into a frame. Returns (body, certain)
    where certain=True means no reading of the protocol can decode it."""
    k = rng.choice(['empty', 'short', 'unknown_type', 'ext_type', 'truncated', 'ignore_garbage', 'push_on_stream'])
    if k == 'empty':
        return b'', True
    if k == 'short':
        return _rb(rng, rng.randint(1, 5)), True
    if k == 'unknown_type':
        tid = rng.choice([0, 15, 16, 31, 40, 62])
        return rc._hdr(rng.randint(0, 100), tid, rng.randint(0, 0x3FF)) + _rb(rng, rng.randint(0, 30)), True
    if k == 'ext_type':
        return rc._hdr(rng.randint(0, 100), 0x3F, 0) + _rb(rng, rng.randint(0, 30)), True
    if k == 'truncated':
        # fixed part of the frame cut short
        t = rng.choice(['SETUP', 'LEASE', 'KEEPALIVE', 'REQUEST_STREAM', 'REQUEST_CHANNEL', 'REQUEST_N', 'ERROR',
                        'RESUME', 'RESUME_OK'])
        need = {'SETUP': 12, 'LEASE': 8, 'KEEPALIVE': 8, 'REQUEST_STREAM': 4, 'REQUEST_CHANNEL': 4, 'REQUEST_N': 4,
                'ERROR': 4, 'RESUME': 6, 'RESUME_OK': 8}[t]
        return rc._hdr(rng.randint(1, 100), rc.TYPE_BY_NAME[t], 0) + _rb(rng, rng.randint(0, need - 1)), False
    if k == 'ignore_garbage':
        t = rng.choice(['SETUP', 'REQUEST_N', 'ERROR', 'RESUME'])
        return rc._hdr(rng.randint(1, 100), rc.TYPE_BY_NAME[t], rc.F_IGNORE) + _rb(rng, rng.randint(0, 3)), False
    return rc.enc_metadata_push(_rb(rng, rng.randint(1, 20)), sid=rng.randint(1, 50)), True


def gen_parser(seed, opts=None):
    from .plans import gen_policy, _pick
    rng = random.Random(seed)
    n = rng.randint(1, 12)
    frames = []
    for _ in range(n):
        if rng.random() < 0.3:
            body, certain = gen_junk(rng)
            frames.append({'junk': True, 'certain': certain, 'hex': body.hex()})
        else:
            frames.append({'junk': False, 'hex': gen_valid(rng).hex()})
    mode = _pick(rng, (opts or {}).get('modes', [(3, 'tcp'), (1, 'msg')]))
    chunkings = []
    for _ in range(3):
        p = gen_policy(rng, stall_bias=0.0)
        p['chunk'] = _pick(rng, [(2, 1), (2, 2), (2, 3), (1, 'frame'), (1, 'write'), (3, 'rand'), (1, 'all')])
        if p['chunk'] == 'rand':
            p['chunk_max'] = _pick(rng, [(2, 3), (2, 8), (1, 64), (1, 700)])
        p['latency'] = _pick(rng, [(3, 0.0), (1, 0.001)])
        chunkings.append({'policy': p, 'read_buf': _pick(rng, [(2, 1), (1, 2), (1, 3), (1, 7), (2, 1024), (1, 6 * 1024 * 1024)]),
                          'writes': _pick(rng, [(2, 'one'), (2, 'per_frame'), (1, 'split')])})
    return {'exec': 'parser', 'profile': 'parser', 'seed': seed, 'mode': mode, 'frames': frames, 'chunkings': chunkings,
            'nontrivial': True}


# ---------------------------------------------------------------------------------------------
# execution
# ---------------------------------------------------------------------------------------------

def summary(frame):
    """Everything the library decoded, from the library's frame object."""
    d = finfo(frame)
    if d['type'] == 'INVALID':
        return d
    d['ignore'] = bool(getattr(frame, 'flags_ignore', False))
    t = d['type']
    if t == 'SETUP':
        for k in ('major_version', 'minor_version', 'keep_alive_milliseconds', 'max_lifetime_milliseconds',
                  'flags_lease', 'flags_resume'):
            d[k] = getattr(frame, k, None)
        d['metadata_encoding'] = bytes(frame.metadata_encoding)
        d['data_encoding'] = bytes(frame.data_encoding)
        if frame.flags_resume:
            d['token'] = bytes(frame.resume_identification_token)
    elif t == 'KEEPALIVE':
        d['position'] = frame.last_received_position
    elif t == 'RESUME':
        d['token'] = bytes(frame.resume_identification_token)
        d['last_server_position'] = frame.last_server_position
        d['first_client_position'] = frame.first_client_position
    elif t == 'RESUME_OK':
        d['position'] = frame.last_received_client_position
    return d


def ref_summary(body):
    """Same shape as summary(), from the reference decoder. None if undecodable."""
    try:
        f = rc.decode(body)
    except rc.RefDecodeError:
        return None
    t = f['type']
    if t == 'METADATA_PUSH' and f['sid'] != 0:
        return None
    d = {'type': t, 'sid': f['sid'], 'data': f.get('data') or b'', 'metadata': f.get('metadata') or b'',
         'follows': bool(f.get('follows')), 'complete': bool(f.get('complete')), 'ignore': f['ignore']}
    if t == 'PAYLOAD':
        d['next'] = f['next'] or bool(d['data']) or bool(d['metadata'])
    if t in ('REQUEST_STREAM', 'REQUEST_CHANNEL', 'REQUEST_N'):
        d['n'] = f['n']
    elif t == 'ERROR':
        d['code'] = f['code']
    elif t == 'KEEPALIVE':
        d['respond'] = f['respond']
        d['position'] = f['position']
    elif t == 'LEASE':
        d['ttl_ms'], d['n'] = f['ttl_ms'], f['n']
    elif t == 'SETUP':
        d.update(major_version=f['major'], minor_version=f['minor'], keep_alive_milliseconds=f['keepalive_ms'],
                 max_lifetime_milliseconds=f['lifetime_ms'], flags_lease=f['lease'], flags_resume=f['resume'],
                 metadata_encoding=f['metadata_mime'], data_encoding=f['data_mime'])
        if f['resume']:
            d['token'] = f['token']
    elif t == 'RESUME':
        d['token'] = f['token']
        body = bytes(body)
        off = 6 + 6 + len(f['token'])
        d['last_server_position'] = int.from_bytes(body[off:off + 8], 'big') & (2 ** 63 - 1)
        d['first_client_position'] = int.from_bytes(body[off + 8:off + 16], 'big') & (2 ** 63 - 1)
    elif t == 'RESUME_OK':
        d['position'] = int.from_bytes(bytes(body)[6:14], 'big') & (2 ** 63 - 1)
    if t == 'KEEPALIVE':
        d['position'] &= (2 ** 63 - 1)
    return d


class _NullWriter:
    def write(self, data):
        pass

    async def drain(self):
        pass

    def close(self):
        pass

    async def wait_closed(self):
        pass


def run_parser(plan):
    world = World(plan)
    world.install()
    world.results = []
    try:
        bodies = [bytes.fromhex(f['hex']) for f in plan['frames']]
        if plan['mode'] == 'tcp':
            for ch in [{'policy': {'latency': 0.0, 'chunk': 'all'}, 'read_buf': 6 * 1024 * 1024, 'writes': 'one'}] + plan['chunkings']:
                world.results.append(_run_tcp(world, bodies, ch))
        else:
            for side in ('client', 'server'):
                world.results.append(_run_msg(world, bodies, side))
    except SimCap as e:
        world.incomplete = str(e)
    finally:
        world.final_digest = world.digest()
        world.uninstall()
    return world


def _run_tcp(world, bodies, ch):
    from rsocket.transports.tcp import TransportTCP
    loop = world.loop
    pipe = net.BytePipe(world, 'c2s', ch['policy'])
    pipe.link = None
    transport = TransportTCP(pipe.reader, _NullWriter(), read_buffer_size=ch['read_buf'])
    got = []
    state = {'done': False, 'error': None}

    async def consume():
        try:
            while True:
                gen = await transport.next_frame_generator()
                if gen is None:
                    break
                async for frame in gen:
                    got.append(summary(frame))
        except Exception as e:  # noqa
            state['error'] = '%s: %s' % (type(e).__name__, e)
        state['done'] = True

    def start():
        loop.create_task(consume())
        stream = b''.join(rc.with_len(b) for b in bodies)
        if ch['writes'] == 'one':
            pipe.write(stream)
        elif ch['writes'] == 'per_frame':
            for b in bodies:
                pipe.write(rc.with_len(b))
        else:
            r = random.Random(len(stream))
            i = 0
            while i < len(stream):
                k = r.randint(1, 40)
                pipe.write(stream[i:i + k])
                i += k
        pipe.writer_closed()

    loop.call_soon(start)
    loop.run_sim(until_time=loop.time() + 3600.0, stop_when=lambda: state['done'])
    leftover = len(transport._frame_parser._buffer)
    world.rec('parse', chunking=ch['policy'].get('chunk'), read_buf=ch['read_buf'], n=len(got), leftover=leftover,
              error=state['error'], done=state['done'], nonterm=world.stats.get('parser_guard', 0))
    return {'frames': got, 'leftover': leftover, 'error': state['error'], 'done': state['done'], 'chunking': ch}


def _run_msg(world, bodies, side):
    """Each body is one websocket message, through the real aiohttp transport of `side`."""
    loop = world.loop
    link = net.MessageLink(world, {'latency': 0.0}, {'latency': 0.0})
    ws = link.client_ws if side == 'client' else link.server_ws
    transport = world.make_ws_transport(side, ws, side)
    per_message = []
    state = {'done': False, 'error': None}

    async def feed_and_consume():
        pump = None
        try:
            if side == 'client':
                await transport.connect()
            else:
                pump = loop.create_task(transport.handle_incoming_ws_messages())
            for i, b in enumerate(bodies):
                ws.inject(net._Msg(ws._binary, b))
                # let the transport's reader task process the message
                for _ in range(6):
                    await asyncio.sleep(0)
                frames = []
                while not transport._incoming_frame_queue.empty():
                    item = transport._incoming_frame_queue.get_nowait()
                    frames.append(summary(item) if not isinstance(item, Exception) else {'type': 'EXC', 'err': repr(item)})
                per_message.append(frames)
        except Exception as e:  # noqa
            state['error'] = '%s: %s' % (type(e).__name__, e)
        finally:
            if pump is not None:
                pump.cancel()
            if side == 'client' and transport._message_handler is not None:
                transport._message_handler.cancel()
        state['done'] = True

    loop.call_soon(lambda: loop.create_task(feed_and_consume()))
    loop.run_sim(until_time=loop.time() + 3600.0, stop_when=lambda: state['done'])
    world.rec('parse', side=side, n=sum(len(x) for x in per_message), error=state['error'], done=state['done'],
              nonterm=world.stats.get('parser_guard', 0))
    return {'per_message': per_message, 'error': state['error'], 'done': state['done'], 'side': side}


# ---------------------------------------------------------------------------------------------
# oracle
# ---------------------------------------------------------------------------------------------

def oracle_c04(world):
    out = []
    V = lambda cls, msg, **f: out.append(Violation('C04', 'C04.' + cls, msg, None, **f))
    plan = world.plan
    bodies = [bytes.fromhex(f['hex']) for f in plan['frames']]
    expected = []  # per input frame: summary or None ('no frame'), or 'any' (junk the statement leaves open)
    for f, b in zip(plan['frames'], bodies):
        if not f['junk']:
            expected.append(ref_summary(b))
        elif f['certain']:
            expected.append(None)
        else:
            expected.append('any')
    if world.stats.get('parser_guard'):
        V('nontermination', 'FrameParser.receive_data kept yielding for one input (guard fired %d times)'
          % world.stats['parser_guard'], mode=plan['mode'])
    if plan['mode'] == 'tcp':
        base = world.results[0]
        base_frames = [f for f in base['frames'] if f['type'] != 'INVALID']
        for r in world.results:
            facts = dict(mode='tcp', chunk=str(r['chunking']['policy'].get('chunk')), read_buf=r['chunking']['read_buf'])
            if not r['done'] or r['error']:
                V('reader_failed', 'frame reader did not finish cleanly: %s' % r['error'], **facts)
                continue
            frames = [f for f in r['frames'] if f['type'] != 'INVALID']
            if frames != base_frames:
                V('chunking_dependent', 'decoded frames differ from the one-shot parse (%d vs %d frames)'
                  % (len(frames), len(base_frames)), **facts)
            if r['leftover']:
                V('buffer_not_empty', '%d bytes left in the parser after a stream ending at a frame boundary'
                  % r['leftover'], **facts)
        # one-shot parse vs the reference decoder
        it = iter(base_frames)
        nxt = next(it, None)
        for i, e in enumerate(expected):
            if e is None:
                continue
            if e == 'any':
                # the library may or may not produce a frame for this junk; if the next decoded frame
                # is not the next expected valid frame, consume one
                later = next((x for x in expected[i + 1:] if x not in (None, 'any')), None)
                if nxt is not None and nxt != later:
                    nxt = next(it, None)
                elif nxt is not None and later is not None and nxt == later:
                    pass
                continue
            if nxt != e:
                diff = [k for k in (e or {}) if (nxt or {}).get(k) != e.get(k)] if nxt else ['missing']
                V('decode_mismatch', 'frame %d (%s): library decoded %s differently from the reference (%s)'
                  % (i, e['type'], nxt['type'] if nxt else None, diff[:5]), mode='tcp', type=e['type'],
                  fields=','.join(diff[:5]))
                break
            nxt = next(it, None)
        else:
            if nxt is not None:
                V('extra_frame', 'library produced a frame (%s) the input does not contain' % nxt['type'], mode='tcp')
    else:
        for r in world.results:
            facts = dict(mode='msg', side=r['side'])
            if not r['done'] or r['error']:
                V('reader_failed', 'message reader did not finish cleanly: %s' % r['error'], **facts)
                continue
            for i, (e, frames) in enumerate(zip(expected, r['per_message'])):
                real = [f for f in frames if f['type'] not in ('INVALID',)]
                if len(frames) > 1:
                    V('message_yields_many', 'message %d yielded %d items' % (i, len(frames)), **facts)
                    break
                if e == 'any':
                    continue
                if e is None:
                    if real:
                        V('junk_decoded', 'undecodable message %d produced a %s frame' % (i, real[0]['type']), **facts)
                        break
                    continue
                if not real or real[0] != e:
                    diff = [k for k in e if (real[0] if real else {}).get(k) != e.get(k)]
                    V('decode_mismatch', 'message %d (%s) decoded differently from the reference (%s)'
                      % (i, e['type'], diff[:5]), type=e['type'], fields=','.join(diff[:5]), **facts)
                    break
            if len(r['per_message']) != len(expected):
                V('messages_lost', 'only %d of %d messages processed' % (len(r['per_message']), len(expected)), **facts)
    return out
