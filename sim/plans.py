"""Seed -> scenario plan generators (pure functions of the seed and the profile options).

A plan is a JSON document; executing it is a pure function of (plan, code).
"""
import hashlib
import random

MAXN = 0x7FFFFFFF


def run_seed(base_seed, prop, profile, index):
    h = hashlib.sha256(('%s|%s|%s|%s' % (base_seed, prop, profile, index)).encode()).digest()
    return int.from_bytes(h[:8], 'big')


def _pick(rng, choices):
    """choices: list of (weight, value)"""
    tot = sum(w for w, _ in choices)
    x = rng.random() * tot
    for w, v in choices:
        x -= w
        if x <= 0:
            return v
    return choices[-1][1]


def gen_policy(rng, stall_bias=0.3, heavy_chunk=True):
    p = {'seed': rng.randrange(1 << 30)}
    p['latency'] = _pick(rng, [(2, 0.0), (4, 0.001), (2, 0.003), (1, 0.05), (1, round(rng.uniform(0, 0.02), 4))])
    if rng.random() < 0.3:
        p['jitter'] = _pick(rng, [(2, 0.001), (1, 0.01)])
    if rng.random() < 0.4:
        p['hops'] = rng.randint(1, 4)
    p['chunk'] = _pick(rng, [(4, 'all'), (2, 'write'), (2, 'frame'), (1, 1), (1, 2), (1, 3), (3, 'rand')])
    if p['chunk'] == 'rand':
        p['chunk_max'] = _pick(rng, [(2, 4), (2, 16), (2, 64), (1, 200), (1, 1500)])
    if rng.random() < 0.3:
        p['gap'] = _pick(rng, [(2, 0.0001), (1, 0.001)])
    if rng.random() < stall_bias:
        p['drain'] = _pick(rng, [(2, 'hops'), (2, 'delay')])
        p['drain_hops'] = rng.randint(1, 6)
        p['drain_delay'] = _pick(rng, [(2, 0.0005), (2, 0.003), (1, 0.05)])
        p['drain_prob'] = _pick(rng, [(1, 1.0), (2, 0.5), (2, 0.2)])
    return p


def gen_len(rng, budget=None, allow_zero=True):
    """Payload part length, biased to fragment boundaries when a fragment size is configured."""
    r = rng.random()
    if budget:
        body = max(8, budget - 9)
        if r < 0.35:
            k = rng.randint(1, 4)
            return max(0, k * body + rng.randint(-3, 3))
        if r < 0.45:
            return rng.randint(5 * body, 12 * body)
    if r < 0.55:
        return rng.randint(1, 40)
    if r < 0.62 and allow_zero:
        return 0
    if r < 0.9:
        return rng.randint(20, 400)
    return rng.randint(400, 1500)


def gen_lens(rng, budget, n=3, want_md=None):
    out = []
    for _ in range(n):
        md = want_md if want_md is not None else (rng.random() < 0.4)
        d = gen_len(rng, budget)
        m = gen_len(rng, budget) if md else None
        if m == 0 and rng.random() < 0.7:
            m = None
        if d == 0 and not m:
            d = rng.randint(1, 30)  # the empty payload is 'no element' and is excluded
        out.append([d, m])
    return out


def gen_req_lens(rng, budget):
    d, m = gen_lens(rng, budget, 1)[0]
    if d < 8 and (m or 0) < 8:
        if rng.random() < 0.5:
            d = 8 + d
        else:
            m = 8 + (m or 0)
    return {'dlen': d, 'mlen': m}


def gen_source(rng, budget, opts, direction):
    src = _pick(rng, opts.get('sources', [(3, 'gen'), (2, 'agen'), (2, 'manual')]))
    count = _pick(rng, [(1, 0), (2, 1), (2, 2), (3, rng.randint(3, 8)), (1, rng.randint(min(9, opts.get('max_count', 30)), opts.get('max_count', 30)))])
    sc = {'src': src, 'count': count, 'lens': gen_lens(rng, budget, rng.randint(1, 3)),
          'end': _pick(rng, [(2, 'flag'), (3, 'separate')])}
    if count == 0:
        sc['end'] = 'separate'
    if rng.random() < 0.35:
        sc['pacing'] = _pick(rng, [(2, 0.0005), (2, 0.002), (1, 0.02)])
    elif src == 'manual' and rng.random() < 0.4:
        sc['pacing'] = 'sync'
    if src == 'agen' and rng.random() < 0.3:
        sc['agen_delay'] = _pick(rng, [(1, 0.0003), (1, 0.002)])
    if opts.get('errors', True) and rng.random() < 0.12:
        sc['error_at'] = rng.randint(0, count)
    if direction == 'c':
        sc['start_idx'] = 1
    if src in ('gen', 'agen') and rng.random() < opts.get('long_streams', 0.0):
        # many small elements from a paced source: internal buffers of the library's publishers fill up
        sc.update(count=rng.randint(130, 400), lens=[[rng.randint(1, 12), None]], pacing=_pick(rng, [(2, 0.0005), (1, 0.002)]))
        sc.pop('error_at', None)
    if src in ('gen', 'agen') and rng.random() < opts.get('on_cancel_raises', 0.0):
        sc['on_cancel_raises'] = True
    if rng.random() < opts.get('lib_streams', 0.0):
        # rsocket.streams.EmptyStream / ErrorStream: zero elements, then the terminal signal on the first request
        sc = {'src': _pick(rng, [(1, 'lib-empty'), (1, 'lib-error')]), 'count': 0, 'lens': sc['lens'], 'end': 'separate'}
        if sc['src'] == 'lib-error':
            sc['error_at'] = 0
        if direction == 'c':
            sc['start_idx'] = 1
    return sc


def gen_sub(rng, count_hint, opts, requester_side):
    sc = {}
    r = rng.random()
    if r < 0.3:
        sc['initial_n'] = MAXN
    elif r < 0.5:
        sc['initial_n'] = 1
    else:
        sc['initial_n'] = max(1, _pick(rng, [(1, 2), (1, 3), (2, max(1, count_hint - 1)), (2, max(1, count_hint)),
                                            (2, count_hint + 1), (1, rng.randint(1, 40))]))
    sc['refill'] = _pick(rng, [(3, [1]), (2, [2, 1]), (1, [rng.randint(1, 5) for _ in range(3)]), (2, [MAXN]), (1, [7])])
    if rng.random() < 0.3:
        sc['refill_via'] = 'soon'
    if not requester_side:
        sc['initial_via'] = _pick(rng, [(3, 'sync'), (1, 'soon'), (1, 'delay')])
        if sc['initial_via'] == 'delay':
            sc['initial_delay'] = _pick(rng, [(1, 0.0005), (1, 0.004)])
    if rng.random() < 0.2:
        sc['extra'] = [[round(rng.uniform(0, 0.02), 4), rng.randint(1, 4)] for _ in range(rng.randint(1, 3))]
    return sc


def gen_interaction(rng, iid, opts, cfgs):
    by = _pick(rng, opts.get('by', [(3, 'client'), (1, 'server')]))
    kind = _pick(rng, opts.get('kinds', [(3, 'rr'), (3, 'stream'), (3, 'channel'), (1, 'fnf'), (1, 'push')]))
    req_budget = cfgs[by].get('fragment')
    resp_ep = 'server' if by == 'client' else 'client'
    resp_budget = cfgs[resp_ep].get('fragment')
    ia = {'id': iid, 'kind': kind, 'by': by, 'at': _pick(rng, [(3, 0.0), (3, round(rng.uniform(0, 0.01), 4)),
                                                                 (1, round(rng.uniform(0, 0.2), 3))])}
    if rng.random() < 0.3:
        ia['hops'] = rng.randint(1, 5)
    ia['req'] = gen_req_lens(rng, req_budget)
    if kind == 'push':
        ia['req'] = {'mlen': max(8, gen_len(rng, None, False))}
    cancels = opts.get('cancels', 0.0)
    if kind == 'rr':
        mode = _pick(rng, opts.get('rr_modes', [(4, 'now'), (2, 'delay'), (2, 'hops'), (1, 'fail'), (1, 'raise')]))
        d, m = gen_lens(rng, resp_budget, 1)[0]
        resp = {'mode': mode, 'dlen': d, 'mlen': m}
        if mode in ('delay', 'fail'):
            resp['delay'] = _pick(rng, [(1, 0.0), (2, 0.001), (1, 0.01), (1, round(rng.uniform(0, 0.05), 4))])
        if mode == 'hops':
            resp['hops'] = rng.randint(1, 6)
        ia['resp'] = resp
        if rng.random() < cancels:
            ia['cancel'] = {'at': _pick(rng, [(2, 0.0), (2, round(rng.uniform(0, 0.01), 5)), (1, 0.002)]),
                            'hops': rng.randint(0, 6)}
            if rng.random() < 0.3:
                resp['mode'] = 'never'
    elif kind == 'stream':
        resp = gen_source(rng, resp_budget, opts, 'r')
        if rng.random() < 0.05 and opts.get('errors', True):
            resp['mode'] = 'raise'
        ia['resp'] = resp
        ia['sub'] = gen_sub(rng, resp['count'], opts, True)
    elif kind == 'channel':
        resp = gen_source(rng, resp_budget, opts, 'r') if rng.random() < opts.get('p_resp_pub', 0.85) else {}
        pub = gen_source(rng, req_budget, opts, 'c') if rng.random() < opts.get('p_req_pub', 0.8) else None
        if pub is not None or rng.random() < opts.get('p_resp_sub', 0.9):
            # a requester publisher can only finish if somebody grants it credit
            resp['sub'] = gen_sub(rng, (pub or {}).get('count', 0), opts, False)
        if rng.random() < 0.04 and opts.get('errors', True):
            resp['mode'] = 'raise'
        ia['resp'] = resp
        ia['pub'] = pub
        ia['sub'] = gen_sub(rng, resp.get('count', 0), opts, True)
    if kind in ('fnf', 'push') and rng.random() < cancels * opts.get('cancel_sent', 0.0):
        # the caller stops waiting for the 'sent' awaitable of a fire-and-forget / metadata-push
        ia['cancel'] = {'at': _pick(rng, [(3, 0.0), (1, round(rng.uniform(0, 0.003), 5))]), 'hops': rng.randint(0, 3)}
    if kind in ('stream', 'channel') and rng.random() < cancels:
        if rng.random() < 0.08:
            ia['sub']['cancel_in_subscribe'] = True
        elif rng.random() < 0.5:
            ia['sub']['cancel_after'] = rng.randint(1, max(1, ia['resp'].get('count', 1)))
        else:
            ia['sub']['cancel_at'] = _pick(rng, [(2, 0.0), (2, round(rng.uniform(0, 0.01), 5))])
            ia['sub']['cancel_hops'] = rng.randint(0, 6)
    if kind in ('stream', 'channel') and rng.random() < opts.get('awaitable', 0.0) and 'cancel_after' not in ia['sub'] \
            and 'cancel_at' not in ia['sub']:
        ia['api'] = 'awaitable'
        ia['sub'] = {'initial_n': ia['sub'].get('initial_n', MAXN)}
        if kind == 'stream' and rng.random() < 0.3 and ia['resp'].get('count', 0) > 0 and ia['resp'].get('error_at') is None:
            # take-first-N with the collector; N == the stream's length (last element flagged complete) is the edge
            ia['limit_count'] = _pick(rng, [(2, ia['resp']['count']), (2, rng.randint(1, ia['resp']['count']))])
    if rng.random() < opts.get('hdelay', 0.15) and kind in ('rr', 'stream', 'channel'):
        ia['resp']['hdelay'] = _pick(rng, [(1, ['hops', rng.randint(1, 4)]), (1, ['time', _pick(rng, [(1, 0.0005), (1, 0.005)])])])
    return ia


def gen_fragment(rng, opts):
    return _pick(rng, opts.get('fragments', [(3, None), (3, 64), (1, 65), (1, 70), (1, 100), (1, 256), (1, 1024), (1, 4096)]))


def _estimate_bytes(plan):
    tot = 0
    for ia in plan['interactions']:
        r = ia.get('req', {})
        tot += (r.get('dlen') or 0) + (r.get('mlen') or 0) + 12
        for sc in (ia.get('resp'), ia.get('pub')):
            if not sc:
                continue
            if 'lens' in sc:
                per = sum((a or 0) + (b or 0) for a, b in sc['lens']) / len(sc['lens'])
                tot += int(sc.get('count', 0) * (per + 12))
            else:
                tot += (sc.get('dlen') or 0) + (sc.get('mlen') or 0) + 12
    return tot


def gen_core(seed, opts=None):
    """The 'core' profile: real client <-> real server, 1..8 concurrent interactions."""
    opts = opts or {}
    rng = random.Random(seed)
    plan = {'profile': opts.get('name', 'core'), 'seed': seed,
            'framing': _pick(rng, opts.get('framing', [(3, 'tcp'), (1, 'ws')]))}
    plan['loop'] = {'eps': _pick(rng, [(4, 0.0), (1, 1e-6), (1, 1e-5), (1, 1e-4)])}
    if rng.random() < 0.2:
        plan['loop']['tie_perm'] = True
        plan['loop']['tie_seed'] = rng.randrange(1 << 30)
    cfgs = {}
    for ep in ('client', 'server'):
        cfg = {'fragment': gen_fragment(rng, opts)}
        cfg['read_buf'] = _pick(rng, [(3, 1024), (1, 1), (1, 2), (1, 3), (1, 7), (1, 64), (2, 6 * 1024 * 1024)])
        if plan['framing'] == 'ws':
            cfg.pop('read_buf')
        cfgs[ep] = cfg
    if opts.get('keepalive', True) and rng.random() < 0.3:
        cfgs['client']['keepalive_ms'] = _pick(rng, [(1, 20), (2, 50), (2, 500)])
    plan['client'], plan['server'] = cfgs['client'], cfgs['server']
    stall = opts.get('stall_bias', 0.3)
    plan['link'] = {'c2s': gen_policy(rng, stall), 's2c': gen_policy(rng, stall)}
    if plan['framing'] == 'ws':
        for p in plan['link'].values():
            p['chunk'] = 'all'
    n = _pick(rng, opts.get('n_interactions', [(1, 1), (2, 2), (2, 3), (2, 4), (1, 6), (1, 8)]))
    plan['interactions'] = [gen_interaction(rng, i, opts, cfgs) for i in range(n)]
    slow = max(max(pol.get('drain_delay', 0) if pol.get('drain') == 'delay' else 0, pol.get('latency', 0))
               for pol in plan['link'].values())
    if 'keepalive_ms' in plan['client'] and plan['client']['keepalive_ms'] < slow * 1000 * 20:
        plan['client']['keepalive_ms'] = 500 if slow <= 0.02 else 5000
    if rng.random() < opts.get('log_debug', 0.15):
        plan.setdefault('loop', {})
        plan['loop'] = dict(plan['loop'], log_debug=True)  # frame tracing on (pyrsocket logger at DEBUG)
    est = _estimate_bytes(plan)
    for pol in plan['link'].values():
        if est > 3000 and pol.get('chunk') in (1, 2, 3):
            pol['chunk'] = 'rand'
            pol['chunk_max'] = _pick(rng, [(1, 16), (1, 64)])
        if est > 20000 and pol.get('chunk') == 'rand' and pol.get('chunk_max', 64) < 16:
            pol['chunk_max'] = 64
        if est > 100000 and pol.get('chunk') == 'rand':
            # a megabyte trickled in 16-byte reads only runs into the iteration cap (nothing is judged then)
            pol['chunk_max'] = max(pol.get('chunk_max', 64), est // 1500)
    if rng.random() < opts.get('empty_requests', 0.0):
        # one channel (with a requester publisher) whose request payload is empty: the elements follow in PAYLOAD frames
        cands = [ia for ia in plan['interactions'] if ia['kind'] == 'channel' and ia.get('pub') and ia.get('api') != 'awaitable']
        if cands:
            cands[0]['req'] = {'dlen': 0, 'mlen': None}
            cands[0]['empty_req'] = True
    if opts.get('burst') and rng.random() < 0.5:
        for ia in plan['interactions']:
            ia['at'] = 0.0
    faults = []
    if rng.random() < opts.get('stall_faults', 0.25):
        for _ in range(rng.randint(1, 2)):
            faults.append({'kind': 'stall', 'who': _pick(rng, [(1, 'client'), (1, 'server')]),
                           'at': round(0.01 + rng.uniform(0, 0.02), 4), 'dur': _pick(rng, [(2, 0.01), (2, 0.1), (1, 2.0)])})
    plan['faults'] = faults
    plan['horizon'] = opts.get('horizon', 600.0)
    return plan


def gen_refused_n(seed, opts=None):
    """Normal-ending core plans in which some stream / channel requests carry an initial request-n the library may refuse
    (0, negative) or that does not fit the 31-bit field (above MAX_REQUEST_N): whether the call is refused or served, no
    stream may stay registered (C10)."""
    opts = dict(opts or {})
    plan = gen_core(seed, opts)
    rng = random.Random(seed ^ 0x5EED)
    hit = 0
    for ia in plan['interactions']:
        if ia['kind'] in ('stream', 'channel') and ia.get('api') != 'awaitable' and rng.random() < 0.6:
            sub = ia.setdefault('sub', {})
            sub['initial_n'] = _pick(rng, [(2, 0), (1, -1), (1, -7), (2, 2 ** 31), (2, 2 ** 31 + 2 ** 30), (2, 2 ** 32 - 1),
                                           (1, 2 ** 31 + 5000)])
            ia['odd_initial_n'] = True
            hit += 1
    plan['odd_initial_n'] = hit
    return plan


def gen_ids(seed, opts=None):
    """Id-space profile: reduced maximum stream id (2^k - 1, as the suite does) or the full space
    with the cursor near the top; many short interactions plus a few long-lived ones."""
    opts = dict(opts or {})
    rng = random.Random(seed ^ 0x1D5)
    opts.setdefault('n_interactions', [(1, rng.randint(8, 40))])
    opts.setdefault('fragments', [(5, None), (1, 64)])
    opts.setdefault('kinds', [(4, 'rr'), (2, 'fnf'), (3, 'stream'), (2, 'channel')])
    opts.setdefault('errors', True)
    opts.setdefault('max_count', 6)
    plan = gen_core(seed, opts)
    shared_max = _pick(rng, [(2, 7), (3, 15), (3, 31), (2, 63)])  # register_stream() checks peer ids against the own maximum
    r0 = rng.random()
    for ep in ('client', 'server'):
        r = r0 if r0 < 0.75 else rng.random() * 0.25 + 0.75
        if r < 0.75:
            plan[ep]['max_sid'] = shared_max
        elif r < 0.95:
            start = 0x7FFFFFFF - 2 * rng.randint(0, 6)  # odd: the client's cursor
            plan[ep]['sid_start'] = start if ep == 'client' else start - 1
    span = _pick(rng, [(1, 0.0), (2, 0.05), (2, 0.5)])
    for ia in plan['interactions']:
        ia['at'] = round(rng.uniform(0, span), 4)
        ia['req'] = {'dlen': rng.randint(8, 40), 'mlen': None}
        for sc in (ia.get('resp'), ia.get('pub')):
            if sc and 'lens' in sc:
                sc['lens'] = [[rng.randint(1, 40), None]]
            if sc and 'dlen' in sc:
                sc['dlen'], sc['mlen'] = rng.randint(1, 40), None
        if rng.random() < 0.25:
            # long-lived: keeps its id while others come and go
            if ia['kind'] == 'rr':
                ia['resp']['mode'] = 'delay'
                ia['resp']['delay'] = round(rng.uniform(0.05, 1.0), 3)
            elif ia['kind'] in ('stream', 'channel') and ia['resp'].get('src'):
                ia['resp']['pacing'] = round(rng.uniform(0.01, 0.2), 3)
    plan['nontrivial'] = True
    return plan


def gen_cut_base(seed, opts=None):
    """Base plan for connection-loss profiles: a few small pending interactions in both roles.
    Faults are added by the caller (swarm: one random fault; sweep: every fault point)."""
    opts = dict(opts or {})
    rng = random.Random(seed ^ 0xC07)
    opts.setdefault('n_interactions', [(1, 1), (2, 2), (3, 3), (2, 4), (1, 6)])
    opts.setdefault('fragments', [(3, None), (3, 64), (1, 100)])
    opts.setdefault('framing', [(1, 'tcp')])
    opts.setdefault('kinds', [(3, 'rr'), (3, 'stream'), (3, 'channel'), (1, 'fnf')])
    opts.setdefault('max_count', 6)
    opts.setdefault('errors', False)
    opts.setdefault('stall_faults', 0.0)
    opts.setdefault('cancels', 0.0)
    opts.setdefault('on_cancel_raises', 0.15)  # a publisher whose on_cancel callback fails while everything is being stopped
    plan = gen_core(seed, opts)
    plan['loop'] = {'eps': _pick(rng, [(3, 0.0), (1, 1e-6)])}
    plan['client']['keepalive_ms'] = _pick(rng, [(2, 100), (2, 500), (1, 1_000_000)])
    plan['client']['read_buf'] = plan['server']['read_buf'] = _pick(rng, [(3, 1024), (1, 7), (1, 6 * 1024 * 1024)])
    for d in ('c2s', 's2c'):
        pol = plan['link'][d]
        pol['chunk'] = _pick(rng, [(3, 'all'), (1, 'frame'), (1, 'write'), (1, 'rand')])
        pol.setdefault('chunk_max', 16)
        pol['latency'] = _pick(rng, [(3, 0.001), (1, 0.0), (1, 0.004)])
        pol.pop('gap', None)
        if pol.get('drain') == 'delay':
            pol['drain_delay'] = min(pol.get('drain_delay', 0.001), 0.003)
    for ia in plan['interactions']:
        ia['at'] = round(rng.uniform(0, 0.01), 4)
        r = ia.get('req', {})
        if 'dlen' in r:
            r['dlen'] = min(r['dlen'] or 0, _pick(rng, [(3, 40), (1, 200)])) or 8
            r['mlen'] = min(r['mlen'], 100) if r.get('mlen') else r.get('mlen')
            if (r['dlen'] or 0) < 8 and (r.get('mlen') or 0) < 8:
                r['dlen'] = 8
        for sc in (ia.get('resp'), ia.get('pub')):
            if not sc:
                continue
            if 'lens' in sc:
                sc['lens'] = [[min(a or 0, 150) or 1, (min(b, 80) if b else b)] for a, b in sc['lens']]
            if 'dlen' in sc:
                sc['dlen'] = min(sc['dlen'] or 0, 200) or 1
                sc['mlen'] = min(sc['mlen'], 80) if sc.get('mlen') else sc.get('mlen')
            if sc.get('pacing') not in (None, 'sync'):
                sc['pacing'] = min(sc['pacing'], 0.002)
        # some interactions stay pending for a long time so that the fault finds them open
        if rng.random() < 0.5:
            if ia['kind'] == 'rr':
                ia['resp']['mode'] = _pick(rng, [(2, 'never'), (2, 'delay')])
                ia['resp']['delay'] = round(rng.uniform(0.01, 0.05), 4)
            elif ia['kind'] in ('stream', 'channel') and ia['resp'].get('src'):
                ia['resp']['pacing'] = 0.002
                ia['resp']['count'] = max(ia['resp'].get('count', 0), 4)
    if opts.get('small'):
        # small enough for every byte offset and every loop iteration to be visited
        for ia in plan['interactions']:
            r = ia.get('req', {})
            if 'dlen' in r:
                r['dlen'], r['mlen'] = min(r['dlen'], 24), (min(r['mlen'], 16) if r.get('mlen') else r.get('mlen'))
                if r['dlen'] < 8 and (r.get('mlen') or 0) < 8:
                    r['dlen'] = 8
            for sc in (ia.get('resp'), ia.get('pub')):
                if not sc:
                    continue
                if 'lens' in sc:
                    sc['lens'] = [[min(a, 70), (min(b, 20) if b else b)] for a, b in sc['lens'][:1]]
                    sc['count'] = min(sc.get('count', 0), 3)
                if 'dlen' in sc:
                    sc['dlen'] = min(sc['dlen'], 70)
                    sc['mlen'] = min(sc['mlen'], 20) if sc.get('mlen') else sc.get('mlen')
        plan['client']['keepalive_ms'] = 1_000_000
    for ep in ('client', 'server'):
        if rng.random() < 0.3:
            plan[ep]['on_close'] = _pick(rng, [(2, ['sleep', _pick(rng, [(1, 0.001), (1, 0.05), (1, 1.0)])]), (1, ['hops', rng.randint(1, 5)]),
                                               (1, ['raise'])])
    plan['horizon'] = 8.0
    plan['settle'] = 4.0
    plan['nontrivial'] = True
    return plan


def gen_cut(seed, opts=None):
    """Swarm variant: base plan plus one connection fault at a random point."""
    rng = random.Random(seed ^ 0xFA17)
    plan = gen_cut_base(seed, opts)
    kind = _pick(rng, [(4, 'cut'), (3, 'close'), (1, 'reset')])
    if kind == 'cut':
        plan['faults'].append({'kind': 'cut', 'dir': _pick(rng, [(1, 'c2s'), (1, 's2c')]),
                               'offset': _pick(rng, [(1, rng.randint(0, 60)), (3, rng.randint(0, 1500))]),
                               'mode': _pick(rng, [(1, 'eof'), (1, 'reset')])})
        if plan['faults'][-1]['mode'] == 'eof' and plan.get('framing') != 'ws' and rng.random() < 0.3:
            plan['faults'][-1]['half_dead'] = True  # the peer half-closes and stops reading (its receive window stays shut)
        if plan.get('framing') == 'ws':
            plan['faults'][-1]['offset'] = rng.randint(0, 25)  # message framing: the link is lost in place of the n-th message
    elif kind == 'close':
        plan['faults'].append({'kind': 'close', 'who': _pick(rng, [(1, 'client'), (1, 'server')]),
                               'at': round(0.01 + rng.uniform(0, 0.03), 5), 'hops': rng.randint(0, 5)})
    else:
        plan['faults'].append({'kind': 'reset', 'at': round(0.01 + rng.uniform(0, 0.03), 5), 'hops': rng.randint(0, 5)})
    f0 = plan['faults'][-1]
    if f0['kind'] in ('close', 'reset') and rng.random() < 0.4:
        # the application calls close() while its own (slow) on_close handler is still running
        who = _pick(rng, [(1, 'client'), (1, 'server')])
        plan[who]['on_close'] = ['sleep', _pick(rng, [(1, 0.05), (1, 1.0)])]
        if not (f0['kind'] == 'close' and f0.get('who') == who):
            plan['faults'].append({'kind': 'close', 'who': who, 'at': round(f0['at'] + _pick(rng, [(2, 0.005), (1, 0.02)]), 5), 'hops': 0})
    elif rng.random() < 0.35:
        # requests issued on an endpoint whose connection is already gone, then that endpoint's own close():
        # whatever is pending when close() is called has to be failed by it
        who = _pick(rng, [(1, 'client'), (1, 'server')])
        if not (f0['kind'] == 'close' and f0.get('who') == who):
            nid = max([ia['id'] for ia in plan['interactions']] + [-1]) + 1
            cfgs = {'client': plan['client'], 'server': plan['server']}
            for j in range(rng.randint(1, 3)):
                ia = gen_interaction(rng, nid + j, {'by': [(1, who)], 'kinds': [(2, 'rr'), (2, 'stream'), (1, 'channel')],
                                                    'cancels': 0.0, 'errors': False, 'max_count': 3, 'hdelay': 0.0}, cfgs)
                ia['at'] = round(0.3 + rng.uniform(0, 0.05), 4)
                ia['late'] = True
                plan['interactions'].append(ia)
            if rng.random() < 0.5:
                # one of the late requests is a fall-back issued from inside on_error of a stream that the loss fails
                # (i.e. while the endpoint is busy stopping all its streams)
                late = [ia for ia in plan['interactions'] if ia.get('late') and ia['kind'] == 'rr']
                if late:
                    fb = late[0]
                    fb['via_retry'] = True
                    plan['interactions'].append({'id': nid + 10, 'kind': 'stream', 'by': who, 'at': round(rng.uniform(0, 0.004), 4),
                                                 'req': {'dlen': 16, 'mlen': None},
                                                 'resp': {'src': 'manual', 'count': 50, 'lens': [[16, None]], 'end': 'separate', 'pacing': 0.05},
                                                 'sub': {'initial_n': 0x7FFFFFFF, 'refill': [1], 'retry_on_error': fb}})
            plan['faults'].append({'kind': 'close', 'who': who, 'at': 0.6, 'hops': rng.randint(0, 3)})
            plan['late_requests'] = who
    return plan


def gen_core_lease(seed, opts=None):
    """Core profile with a lease-honouring client and a server that publishes leases late, so
    that requests (and the REQUEST_N / CANCEL the application issues for them) wait in the queue."""
    opts = dict(opts or {})
    rng = random.Random(seed ^ 0x1EA5)
    opts.setdefault('by', [(1, 'client')])
    opts.setdefault('kinds', [(3, 'rr'), (3, 'stream'), (3, 'channel'), (1, 'fnf')])
    opts.setdefault('cancels', 0.3)
    opts.setdefault('stall_faults', 0.0)
    opts.setdefault('keepalive', False)
    plan = gen_core(seed, opts)
    plan['profile'] = opts.get('name', 'core-lease')
    plan['client']['honor_lease'] = True
    plan['client']['request_queue_size'] = _pick(rng, [(3, 0), (1, 5)])
    leases = []
    t = _pick(rng, [(1, 0.0), (2, 0.012), (2, 0.02), (1, 0.2)])
    for _ in range(rng.randint(1, 3)):
        leases.append({'at': round(t, 4), 'n': _pick(rng, [(1, 1), (1, 2), (2, 50)]), 'ttl_us': _pick(rng, [(1, 5_000), (2, 10_000_000)])})
        t += _pick(rng, [(1, 0.01), (1, 0.1)])
    # a last generous lease so that every retained request is eventually released
    leases.append({'at': round(t + 0.05, 4), 'n': 1000, 'ttl_us': 600_000_000})
    plan['server']['lease_script'] = leases
    for ia in plan['interactions']:
        ia['by'] = 'client'
        sub = ia.get('sub')
        if sub is not None and rng.random() < 0.4:
            sub['extra'] = [[round(rng.uniform(0, 0.005), 5), rng.randint(1, 3)]]
    return plan


def gen_core_eager(seed, opts=None):
    """Core profile whose requester subscribers call request(n) inside on_subscribe."""
    opts = dict(opts or {})
    rng = random.Random(seed ^ 0xEA6E)
    opts.setdefault('kinds', [(4, 'stream'), (4, 'channel'), (1, 'rr')])
    opts.setdefault('cancels', 0.0)
    plan = gen_core(seed, opts)
    plan['profile'] = opts.get('name', 'core-eager')
    for ia in plan['interactions']:
        if ia.get('sub') is not None and rng.random() < 0.7:
            ia['sub']['in_subscribe'] = rng.randint(1, 5)
    return plan


FRAG_GRID_F = [64, 65, 70, 100, 257]


def frag_grid_size(F):
    w = 2 * F + 24
    return (w + 1) * (w + 2)  # dlen in 0..w  x  mlen in {None, 0..w}


def gen_frag_grid(seed, opts=None):
    """C03: deterministic enumeration of (fragment size, framing, data length, metadata length) over a
    window covering 0..2+ fragments of each; the index is carried in opts['index'] (not the seed).
    One run exercises all five fragmentable frame types with that payload shape."""
    opts = opts or {}
    idx = opts.get('grid_index', 0)
    stride = opts.get('grid_stride', 1)
    idx = idx * stride
    combos = [(F, fr) for F in FRAG_GRID_F for fr in ('tcp', 'ws')]
    total = sum(frag_grid_size(F) for F, _ in combos)
    idx %= total
    for F, framing in combos:
        n = frag_grid_size(F)
        if idx < n:
            break
        idx -= n
    w = 2 * F + 24
    dlen, m = divmod(idx, w + 2)
    mlen = None if m == 0 else m - 1
    if dlen == 0 and not mlen:
        dlen = 1  # the empty payload is 'no element'
    req = {'dlen': dlen, 'mlen': mlen} if max(dlen, mlen or 0) >= 8 else {'dlen': 20, 'mlen': None}
    lens = [[dlen, mlen]]
    plan = {'profile': 'frag-grid', 'seed': seed, 'framing': framing, 'loop': {'eps': 0.0},
            'client': {'fragment': F, 'read_buf': 1024}, 'server': {'fragment': F, 'read_buf': 1024},
            'link': {'c2s': {'latency': 0.001, 'seed': 1}, 's2c': {'latency': 0.001, 'seed': 2}},
            'grid': {'F': F, 'dlen': dlen, 'mlen': mlen}, 'faults': [], 'nontrivial': True, 'horizon': 60.0,
            'interactions': [
                {'id': 0, 'kind': 'rr', 'by': 'client', 'at': 0.0, 'req': req, 'resp': {'mode': 'now', 'dlen': dlen, 'mlen': mlen}},
                {'id': 1, 'kind': 'fnf', 'by': 'client', 'at': 0.0, 'req': req},
                {'id': 2, 'kind': 'stream', 'by': 'server', 'at': 0.0, 'req': req, 'sub': {'initial_n': MAXN, 'refill': [MAXN]},
                 'resp': {'src': 'manual', 'count': 2, 'lens': lens, 'end': 'flag', 'pacing': 'sync'}},
                {'id': 3, 'kind': 'channel', 'by': 'client', 'at': 0.0, 'req': req, 'sub': {'initial_n': MAXN, 'refill': [MAXN]},
                 'pub': {'src': 'manual', 'count': 1, 'lens': lens, 'end': 'separate', 'start_idx': 1},
                 'resp': {'src': 'gen', 'count': 1, 'lens': lens, 'end': 'separate', 'sub': {'initial_n': MAXN, 'refill': [MAXN]}}},
                {'id': 4, 'kind': 'channel', 'by': 'server', 'at': 0.0, 'req': req, 'pub': None, 'sub': {'initial_n': MAXN, 'refill': [MAXN]},
                 'resp': {'src': 'manual', 'count': 1, 'lens': lens, 'end': 'flag'}},
            ]}
    return plan


def gen_core_close(seed, opts=None):
    """Requests that need no answer, followed closely by an orderly close() of the sending endpoint,
    with a peer whose handlers take their time (so data and EOF pile up in its read buffer)."""
    opts = dict(opts or {})
    rng = random.Random(seed ^ 0xC105E)
    opts.setdefault('kinds', [(4, 'fnf'), (2, 'push')])
    opts.setdefault('n_interactions', [(1, 1), (2, 3), (2, 6), (1, 10)])
    opts.setdefault('framing', [(1, 'tcp')])
    opts.setdefault('stall_faults', 0.0)
    opts.setdefault('stall_bias', 0.1)
    opts.setdefault('keepalive', False)
    who = _pick(rng, [(2, 'client'), (1, 'server')])
    opts['by'] = [(1, who)]
    plan = gen_core(seed, opts)
    plan['profile'] = opts.get('name', 'core-close')
    last = 0.0
    for ia in plan['interactions']:
        ia['by'] = who
        ia['at'] = round(rng.uniform(0, 0.004), 5)
        last = max(last, ia['at'])
        if rng.random() < 0.7:
            ia['hslow'] = _pick(rng, [(1, 0.002), (2, 0.005), (1, 0.02)])
    peer = 'server' if who == 'client' else 'client'
    plan[peer]['read_buf'] = _pick(rng, [(2, 1024), (1, 64), (1, 6 * 1024 * 1024)])
    plan['faults'] = [{'kind': 'close', 'who': who, 'at': round(0.01 + last + _pick(rng, [(2, 0.0005), (2, 0.003), (1, 0.02)]), 5),
                       'hops': rng.randint(0, 3)}]
    plan['horizon'] = 3.0
    plan['settle'] = 2.0
    plan['nontrivial'] = True
    return plan


def gen_frag_huge(seed, opts=None):
    """C03: logical frames larger than anything a single wire frame could carry (the 24-bit length field): more than
    16 MiB of data, or data + metadata together above it, in fragments of ~1 MB; reassembly must not care."""
    rng = random.Random(seed ^ 0x4B16)
    F = _pick(rng, [(2, 1_000_000), (1, 4_000_000), (1, 65_536 * 4)])
    big = 0xFFFFFF
    shape = _pick(rng, [(2, [big + rng.randint(1, 4096), None]), (1, [big - rng.randint(0, 8), None]),
                        (2, [9_000_000 + rng.randint(0, 99), 8_000_000 + rng.randint(0, 99)])])
    kind = _pick(rng, [(2, 'rr'), (1, 'fnf'), (1, 'stream')])
    by = _pick(rng, [(2, 'client'), (1, 'server')])
    ia = {'id': 0, 'kind': kind, 'by': by, 'at': 0.0, 'req': {'dlen': 24, 'mlen': None}}
    if kind == 'stream':
        ia['resp'] = {'src': 'gen', 'count': 1, 'lens': [shape], 'end': _pick(rng, [(1, 'flag'), (1, 'separate')])}
        ia['sub'] = {'initial_n': MAXN, 'refill': [MAXN]}
    else:
        ia['req'] = {'dlen': shape[0], 'mlen': shape[1]}
        if kind == 'rr':
            ia['resp'] = {'mode': 'now', 'dlen': 16, 'mlen': None}
    plan = {'profile': 'frag-huge', 'seed': seed, 'framing': _pick(rng, [(2, 'tcp'), (1, 'ws')]), 'loop': {'eps': 0.0},
            'client': {'fragment': F, 'read_buf': 6 * 1024 * 1024, 'keepalive_ms': 1_000_000},
            'server': {'fragment': F, 'read_buf': 6 * 1024 * 1024},
            'link': {'c2s': {'latency': 0.001, 'seed': 1, 'chunk': 'all'}, 's2c': {'latency': 0.001, 'seed': 2, 'chunk': 'all'}},
            'interactions': [ia], 'faults': [], 'horizon': 60.0, 'settle': 1.0, 'nontrivial': True}
    return plan
