"""World: one deterministic simulated execution (loop + clock seam + links + endpoints + taps).

Everything an oracle may look at is appended to `world.history` as a dict stamped with a global
sequence number `seq`, the virtual time `t` and the loop iteration `it`.
"""
import asyncio
import datetime as _dt
import gc
import hashlib
import logging
import random
import sys
from collections import Counter

from .loop import SimLoop, SimCap
from . import net, refcodec

EPOCH = _dt.datetime(2030, 1, 1, 0, 0, 0)


def import_rsocket():
    """Import the library from /repo's working tree (sys.path is set by the launcher)."""
    import rsocket  # noqa
    import rsocket.rsocket_client
    import rsocket.rsocket_server
    import rsocket.lease
    import rsocket.transports.tcp
    return rsocket


class HarnessError(Exception):
    """The harness itself is broken or a trusted private touch point is missing."""


def _make_sim_datetime(loop_getter):
    class SimDateTime(_dt.datetime):
        @classmethod
        def now(cls, tz=None):
            loop = loop_getter()
            base = EPOCH + _dt.timedelta(microseconds=round(loop.time() * 1_000_000))
            return base

    return SimDateTime


_current_world = None


def _current_loop():
    return _current_world.loop


SimDateTime = _make_sim_datetime(_current_loop)


class _LogTap(logging.Handler):
    def __init__(self):
        super().__init__(level=logging.WARNING)

    def emit(self, record):
        w = _current_world
        if w is None:
            return
        try:
            msg = record.getMessage()
        except Exception:
            msg = str(record.msg)
        if record.levelno < logging.WARNING:
            return  # debug tracing switched on for this run: formatted (as a real handler would), not recorded
        exc = None
        if record.exc_info and record.exc_info[1] is not None:
            exc = '%s: %s' % (type(record.exc_info[1]).__name__, record.exc_info[1])
        w.rec('log', level=record.levelname, msg=msg[:200], exc=exc[:300] if exc else None)


_log_tap = _LogTap()
_logging_installed = False


def _install_logging():
    global _logging_installed
    if _logging_installed:
        return
    lg = logging.getLogger('pyrsocket')
    lg.handlers[:] = [_log_tap]
    lg.propagate = False
    lg.setLevel(logging.WARNING)
    logging.getLogger('asyncio').handlers[:] = [logging.NullHandler()]
    logging.getLogger('asyncio').propagate = False
    _logging_installed = True


FRAME_TYPE_NAMES = refcodec.NAMES


def finfo(frame):
    """Describe a library frame object (enqueue / transport / receive taps)."""
    ft = getattr(frame, 'frame_type', None)
    if ft is None:
        return {'type': 'INVALID', 'sid': -1}
    name = FRAME_TYPE_NAMES.get(int(ft), str(int(ft)))
    d = {'type': name, 'sid': frame.stream_id}
    data = getattr(frame, 'data', None)
    md = getattr(frame, 'metadata', None)
    d['data'] = bytes(data) if data else b''
    d['metadata'] = bytes(md) if md else b''
    d['follows'] = bool(getattr(frame, 'flags_follows', False))
    d['complete'] = bool(getattr(frame, 'flags_complete', False))
    if name == 'PAYLOAD':
        d['next'] = bool(getattr(frame, 'flags_next', False)) or bool(d['data']) or bool(d['metadata'])
    if name in ('REQUEST_STREAM', 'REQUEST_CHANNEL'):
        d['n'] = getattr(frame, 'initial_request_n', None)
    elif name == 'REQUEST_N':
        d['n'] = getattr(frame, 'request_n', None)
    elif name == 'ERROR':
        try:
            d['code'] = int(frame.error_code)
        except Exception:
            d['code'] = None
    elif name == 'KEEPALIVE':
        d['respond'] = bool(getattr(frame, 'flags_respond', False))
    elif name == 'LEASE':
        d['ttl_ms'] = getattr(frame, 'time_to_live', None)
        d['n'] = getattr(frame, 'number_of_requests', None)
    fs = getattr(frame, 'fragment_size_bytes', None)
    if fs:
        d['fragsize'] = fs
    return d


class World:
    def __init__(self, plan):
        global _current_world
        self.plan = plan
        lp = plan.get('loop', {})
        tie_rng = random.Random(lp['tie_seed']) if lp.get('tie_perm') else None
        self.loop = SimLoop(eps=lp.get('eps', 0.0), max_iters=lp.get('max_iters', 200_000), tie_rng=tie_rng)
        self.history = []
        self.seq = 0
        self.stats = {}
        self.faults = Counter()
        self.probes = Counter()
        self.endpoints = {}  # name -> endpoint object
        self.transports = {}
        self.frame_ids = {}
        self.incomplete = None
        self.last_progress = 0.0
        self._iter_hooks = {}
        _current_world = self
        self._patched = []

    # -- recording -----------------------------------------------------------------------
    def rec(self, k, **kw):
        self.seq += 1
        kw['k'] = k
        kw['seq'] = self.seq
        kw['t'] = self.loop._now
        kw['it'] = self.loop.iters
        self.history.append(kw)
        f = kw.get('f')
        if f is None or f.get('type') != 'KEEPALIVE':
            self.last_progress = self.loop._now
        return kw

    def at_iter(self, n, fn):
        """Run fn() just before loop iteration n (sweeps place actions/faults at exact steps)."""
        if not self._iter_hooks:
            self.loop.on_iteration = self._on_iteration
        self._iter_hooks.setdefault(n, []).append(fn)

    def _on_iteration(self, loop):
        fns = self._iter_hooks.pop(loop.iters, None)
        if fns:
            for fn in fns:
                fn()

    def fault_fired(self, kind):
        self.faults[kind] += 1

    def probe(self, name, n=1):
        self.probes[name] += n

    # -- seams ---------------------------------------------------------------------------
    def install(self):
        import_rsocket()
        import rsocket.rsocket_client as rc
        import rsocket.lease as rl
        _install_logging()
        if (self.plan.get('loop') or {}).get('log_debug'):
            # the application runs the library with frame tracing on (logger at DEBUG): behaviour must not depend on it
            logging.getLogger('pyrsocket').setLevel(logging.DEBUG)
            _log_tap.setLevel(logging.DEBUG)
            self._log_debug = True
        for mod in (rc, rl):
            if not hasattr(mod, 'datetime'):
                raise HarnessError('clock seam missing: %s.datetime' % mod.__name__)
            self._patched.append((mod, 'datetime', mod.datetime))
            mod.datetime = SimDateTime
        import rsocket.frame_fragment_cache as ffc
        world = self
        orig_append = ffc.FrameFragmentCache.append

        def tapped_append(cache, frame):
            result = orig_append(cache, frame)
            if result is not None:
                owner = None
                for nm, ep in world.endpoints.items():
                    if getattr(ep, '_frame_fragment_cache', None) is cache:
                        owner = nm
                        break
                world.rec('reasm', ep=owner, f=finfo(result))
            return result

        self._patched.append((ffc.FrameFragmentCache, 'append', orig_append))
        ffc.FrameFragmentCache.append = tapped_append
        import rsocket.frame_parser as fpm
        orig_receive = fpm.FrameParser.receive_data

        async def guarded_receive(parser, data, header_length=3):
            # deterministic termination guard: one call can yield at most one frame per 3 bytes
            # (byte stream) or one frame (message) -- anything beyond is a non-terminating parser
            bound = (len(parser._buffer) + len(data)) // 3 + 8 if header_length else 4
            n = 0
            async for frame in orig_receive(parser, data, header_length):
                n += 1
                if n > bound:
                    world.stats['parser_guard'] = world.stats.get('parser_guard', 0) + 1
                    world.rec('guard', what='parser_nontermination', input_len=len(data), header_length=header_length)
                    raise RuntimeError('sim: FrameParser.receive_data does not terminate on this input')
                yield frame

        self._patched.append((fpm.FrameParser, 'receive_data', orig_receive))
        fpm.FrameParser.receive_data = guarded_receive
        # deterministic termination guard for the decoding of extension metadata (composite metadata and everything it
        # dispatches to: routing tags, authentication, mime types): a budget of executed source lines per parse() call
        import sys
        import rsocket.extensions.composite_metadata as cmm
        orig_cm_parse = cmm.CompositeMetadata.parse
        budget = 200_000

        def guarded_cm_parse(cm, metadata):
            count = [0]

            def tracer(frame, event, arg):
                if event == 'line':
                    count[0] += 1
                    if count[0] > budget:
                        world.stats['metadata_guard'] = world.stats.get('metadata_guard', 0) + 1
                        world.rec('guard', what='metadata_parse_nontermination', input_len=len(bytes(metadata or b'')))
                        raise RuntimeError('sim: CompositeMetadata.parse does not terminate on this input')
                return tracer

            old = sys.gettrace()
            sys.settrace(tracer)
            try:
                return orig_cm_parse(cm, metadata)
            finally:
                sys.settrace(old)

        self._patched.append((cmm.CompositeMetadata, 'parse', orig_cm_parse))
        cmm.CompositeMetadata.parse = guarded_cm_parse
        asyncio.set_event_loop(self.loop)
        gc.collect()
        gc.disable()

    def uninstall(self):
        global _current_world
        if getattr(self, '_log_debug', False):
            logging.getLogger('pyrsocket').setLevel(logging.WARNING)
            _log_tap.setLevel(logging.WARNING)
        for mod, name, old in self._patched:
            setattr(mod, name, old)
        self._patched = []
        try:
            self.loop.drain_and_close()
        finally:
            asyncio.set_event_loop(None)
            gc.enable()
            _current_world = None

    # -- taps ----------------------------------------------------------------------------
    def tap_endpoint(self, name, ep):
        """Instance-level wrappers around send_frame / send_priority_frame (enqueue tap)."""
        self.endpoints[name] = ep
        if not hasattr(ep, 'send_frame') or not hasattr(ep, 'send_priority_frame'):
            raise HarnessError('enqueue seam missing on endpoint')
        orig_send = ep.send_frame
        orig_prio = ep.send_priority_frame
        world = self

        def send_frame(frame):
            world.rec('enq', ep=name, f=finfo(frame), fid=world.fid(frame), prio=False)
            return orig_send(frame)

        def send_priority_frame(frame):
            world.rec('enq', ep=name, f=finfo(frame), fid=world.fid(frame), prio=True)
            return orig_prio(frame)

        ep.send_frame = send_frame
        ep.send_priority_frame = send_priority_frame
        return ep

    def fid(self, frame):
        key = id(frame)
        v = self.frame_ids.get(key)
        if v is None or v[1] is not frame:
            v = (len(self.frame_ids) + 1, frame)
            self.frame_ids[key] = v
        return v[0]

    def make_tcp_transport(self, name, reader, writer, read_buffer_size=1024):
        from rsocket.transports.tcp import TransportTCP
        world = self

        class SimTCP(TransportTCP):
            async def connect(self):
                world.rec('tr', ep=name, what='connect')
                await super().connect()

            async def send_frame(self, frame):
                world.rec('tx', ep=name, f=finfo(frame), fid=world.fid(frame))
                await super().send_frame(frame)

            async def next_frame_generator(self):
                gen = await super().next_frame_generator()
                if gen is None:
                    world.rec('tr', ep=name, what='read_eof')
                    return None
                return world._tap_rx(name, gen)

            async def close(self):
                world.rec('tr', ep=name, what='close')
                await super().close()

        t = SimTCP(reader, writer, read_buffer_size=read_buffer_size)
        self.transports[name] = t
        return t

    def make_ws_transport(self, name, ws, side):
        from rsocket.transports.aiohttp_websocket import TransportAioHttpClient, TransportAioHttpWebsocket
        world = self
        base = TransportAioHttpClient if side == 'client' else TransportAioHttpWebsocket

        class SimWS(base):
            async def connect(self):
                world.rec('tr', ep=name, what='connect')
                await super().connect()

            async def send_frame(self, frame):
                world.rec('tx', ep=name, f=finfo(frame), fid=world.fid(frame))
                await super().send_frame(frame)

            async def next_frame_generator(self):
                gen = await super().next_frame_generator()
                if gen is None:
                    world.rec('tr', ep=name, what='read_eof')
                    return None
                return world._tap_rx(name, gen)

            async def close(self):
                world.rec('tr', ep=name, what='close')
                if side == 'client':
                    # the transport as built from a url owns its websocket and closes it first (session / ws context exit);
                    # a websocket handed in from outside is closed by whoever owns it - here, at the same moment
                    await ws.close()
                await super().close()

        if side == 'client':
            t = SimWS(websocket=ws)
        else:
            t = SimWS(ws)
        self.transports[name] = t
        return t

    def _tap_rx(self, name, gen):
        world = self

        async def tapped():
            async for frame in gen:
                world.rec('rx', ep=name, f=finfo(frame))
                yield frame

        return tapped()

    # -- observation of private state (trusted base) ---------------------------------------
    def observe_final(self, name):
        ep = self.endpoints[name]
        try:
            streams = sorted(ep._stream_control._streams.keys())
            frags = sorted(ep._frame_fragment_cache._frames_by_stream_id.keys())
        except AttributeError as e:
            raise HarnessError('private observation missing: %s' % e)
        tasks = {}
        for attr in ('_sender_task', '_receiver_task', '_keepalive_task'):
            t = getattr(ep, attr, 'absent')
            if t == 'absent':
                tasks[attr] = 'absent'
            elif t is None:
                tasks[attr] = 'none'
            else:
                tasks[attr] = 'done' if t.done() else 'pending'
        self.rec('final', ep=name, streams=streams, frags=frags, tasks=tasks,
                 sendq=ep._send_queue.qsize())

    # -- digest --------------------------------------------------------------------------
    def digest(self):
        h = hashlib.sha256()
        for ev in self.history:
            h.update(_canon(ev).encode())
        return h.hexdigest()


def _canon(x):
    if isinstance(x, dict):
        return '{' + ','.join('%s:%s' % (k, _canon(x[k])) for k in sorted(x) if k != 'obj') + '}'
    if isinstance(x, (list, tuple)):
        return '[' + ','.join(_canon(v) for v in x) + ']'
    if isinstance(x, (bytes, bytearray)):
        if len(x) > 32:
            return 'b%d:%s' % (len(x), hashlib.sha256(bytes(x)).hexdigest()[:16])
        return 'b' + bytes(x).hex()
    if isinstance(x, float):
        return repr(round(x, 9))
    return repr(x)


def history_to_jsonable(history, limit=None):
    out = []
    for ev in history[:limit] if limit else history:
        out.append(_j(ev))
    return out


def _j(x):
    if isinstance(x, dict):
        return {str(k): _j(v) for k, v in x.items() if k != 'obj'}
    if isinstance(x, (list, tuple)):
        return [_j(v) for v in x]
    if isinstance(x, (bytes, bytearray)):
        if len(x) > 24:
            return 'b[%d]%s..' % (len(x), bytes(x[:12]).decode('latin1'))
        return 'b:' + bytes(x).decode('latin1')
    if isinstance(x, float):
        return round(x, 9)
    if isinstance(x, (int, str, bool)) or x is None:
        return x
    return repr(x)
