"""known_findings.json: committed list of genuine defects recorded (status 'known') or repaired
(status 'fixed').  Never written at run time.  A 'known' entry turns matching violations into
KNOWN-FINDING lines; a 'fixed' entry suppresses nothing."""
import json
import os

PATH = os.path.join(os.path.dirname(os.path.dirname(os.path.abspath(__file__))), 'known_findings.json')


def load():
    if not os.path.exists(PATH):
        return []
    with open(PATH) as f:
        return json.load(f).get('findings', [])


def _match_value(pred, val):
    if isinstance(pred, dict):
        for op, ref in pred.items():
            if op == 'le':
                if val is None or not val <= ref:
                    return False
            elif op == 'ge':
                if val is None or not val >= ref:
                    return False
            elif op == 'in':
                if val not in ref:
                    return False
            elif op == 'ne':
                if val == ref:
                    return False
            elif op == 'contains':
                if val is None or ref not in val:
                    return False
            else:
                raise ValueError('unknown predicate op %r' % op)
        return True
    return val == pred


def match(findings, prop, cls, facts):
    """Return the 'known' finding that covers this violation, or None."""
    for f in findings:
        if f.get('status') != 'known' or f['property'] != prop:
            continue
        classes = f['class'] if isinstance(f['class'], list) else [f['class']]
        if cls not in classes:
            continue
        if all(_match_value(p, facts.get(k)) for k, p in f.get('where', {}).items()):
            return f
    return None
