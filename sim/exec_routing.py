"""'routing' profile (C19): real client <-> real server whose handler is the library's
RoutingRequestHandler over a PRNG route table of recording coroutines; optional authentication
verifier that suspends or raises."""
import asyncio
import random
from datetime import timedelta

from .world import World, SimCap
from . import net, app
from .oracles import Violation
from .plans import _pick, gen_policy

TYPES = ['response', 'stream', 'channel', 'fire_and_forget', 'metadata_push']
KIND_OF = {'response': 'rr', 'stream': 'stream', 'channel': 'channel', 'fire_and_forget': 'fnf', 'metadata_push': 'push'}
TYPE_OF = {v: k for k, v in KIND_OF.items()}
SIGS = ['payload', 'payload_annot', 'cm_named', 'cm_annot', 'both', 'both_annot', 'typed_payload', 'typed_plain_cm']
TAG_MIME = b'x.sim/tag'


def gen_routing(seed, opts=None):
    rng = random.Random(seed ^ 0x2077E)
    names = ['r%d' % i for i in range(6)] + ['a.b', 'x/y/z', 'R0']
    if rng.random() < 0.4:
        # route names are text: multi-byte characters, names that are prefixes of each other, long names
        names += rng.sample(['pedido.caf\u00e9', 'pedido.caf\u00e9s', '\u6ce8\u6587.\u4e00\u89a7', 'usu\u00e1rios.list', 'r10', 'r1.', 'n' * 200,
                             '\u00e9' * 100, 'a.b.c'], 4)
    table = {}
    unknown = {}
    for t in TYPES:
        if rng.random() < 0.8:
            table[t] = {n: rng.choice(SIGS) for n in rng.sample(names, rng.randint(1, 5))}
        else:
            table[t] = {}
        if rng.random() < 0.4:
            unknown[t] = rng.choice(SIGS)
    auth = None
    if rng.random() < 0.5:
        auth = {'delay': _pick(rng, [(2, 0.0), (1, 0.002), (1, 0.05)]), 'accept_user': 'good', 'accept_token': 'tok-good'}
    plan = {'exec': 'routing', 'profile': (opts or {}).get('name', 'routing'), 'seed': seed, 'framing': _pick(rng, [(3, 'tcp'), (1, 'ws')]),
            'loop': {'eps': 0.0}, 'table': table, 'unknown': unknown, 'auth': auth,
            'client': {'fragment': _pick(rng, [(3, None), (1, 64)])}, 'server': {'fragment': _pick(rng, [(3, None), (1, 64)])},
            'link': {'c2s': gen_policy(rng, 0.1), 's2c': gen_policy(rng, 0.1)}, 'nontrivial': True}
    if plan['framing'] == 'ws':
        for p in plan['link'].values():
            p['chunk'] = 'all'
    if auth is not None and rng.random() < 0.5:
        # a verifier whose verdict depends on the route: these routes are closed to everybody
        auth['deny_routes'] = rng.sample(names, rng.randint(1, 3))
    reqs = []
    for i in range(rng.randint(2, 6)):
        t = rng.choice(TYPES)
        r = rng.random()
        known = list(table[t])
        other_type_routes = [n for tt in TYPES if tt != t for n in table[tt] if n not in table[t]]
        if r < 0.55 and known:
            route = [rng.choice(known)]
            if rng.random() < 0.2:
                route.append(rng.choice(names))  # only the first tag counts
            elif rng.random() < 0.1:
                route.append('')  # ... an empty tag behind it included
        elif r < 0.75 and other_type_routes:
            route = [rng.choice(other_type_routes)]  # registered, but for another interaction type
        elif r < 0.87:
            route = ['nope-%d' % i]
        elif r < 0.9:
            route = ['']  # a routing entry whose only tag is empty: no such route
        elif r < 0.95:
            route = []  # routing entry without tags
        else:
            route = None  # no routing entry at all
        a = None
        if rng.random() < 0.7:
            a = _pick(rng, [(3, ['simple', 'good', 'pw']), (1, ['simple', 'bad', 'pw']), (2, ['bearer', 'tok-good']),
                            (1, ['bearer', 'tok-bad'])])
        order = rng.sample(['route', 'auth', 'tag', 'extra'], 4)
        if rng.random() < 0.3:
            order.insert(rng.randint(0, 4), 'empty')  # a legal entry whose content has length 0, anywhere
        reqs.append({'id': i, 'type': t, 'route': route, 'auth': a, 'order': order, 'at': round(rng.uniform(0, 0.01), 4),
                     'dlen': rng.randint(8, 200)})
    plan['requests'] = reqs
    plan['horizon'] = 5.0
    if rng.random() < 0.25:
        # the routing handler sits on the client and the server asks (routing works in both directions)
        plan['direction'] = 's2c'
    if (opts or {}).get('close'):
        # route handlers that take their time, and an endpoint that is closed while some of them are still running
        plan['route_delay'] = _pick(rng, [(1, 0.004), (1, 0.05), (1, 1.0)])
        plan['close'] = {'who': _pick(rng, [(2, 'server'), (1, 'client')]), 'at': round(0.01 + rng.uniform(0.0, 0.02), 4), 'hops': rng.randint(0, 4)}
        plan['horizon'] = 5.0 + 10 * plan['route_delay']  # the receiver works through its backlog one (slow) handler at a time
    return plan


def expected_outcome(plan, rq):
    """DispatchModel: ('handler', type, route_name|'<unknown>') or ('error', reason)."""
    t = rq['type']
    if rq['route'] is None:
        return ('error', 'no_route_entry')
    if not rq['route']:
        return ('error', 'empty_route')
    if plan.get('auth'):
        a = rq.get('auth')
        if a is None:
            return ('error', 'auth_missing')
        ok = (a[0] == 'simple' and a[1] == plan['auth']['accept_user']) or (a[0] == 'bearer' and a[1] == plan['auth']['accept_token'])
        if not ok:
            return ('error', 'auth_rejected')
        if rq['route'][0] in plan['auth'].get('deny_routes', ()):
            return ('error', 'auth_rejected')
    name = rq['route'][0]
    if name in plan['table'].get(t, {}):
        return ('handler', t, name)
    if t in plan.get('unknown', {}):
        return ('handler', t, '<unknown>')
    return ('error', 'unknown_route')


def run_routing(plan):
    world = World(plan)
    world.rr_futures = {}
    world.subscribers = {}
    world.handlers = {}
    world.install()
    try:
        _run(world, plan)
    except SimCap as e:
        world.incomplete = str(e)
    finally:
        world.final_digest = world.digest()
        world.uninstall()
    return world


def _find_tag(payload, composite_metadata):
    """The request ordinal travels in the data (tagged content) or, for metadata-push, in a custom
    composite entry."""
    t = app.parse_tag(payload) if payload is not None else None
    if t:
        return t[0]
    items = []
    if composite_metadata is not None:
        items = composite_metadata.items
    elif payload is not None and payload.metadata:
        from rsocket.extensions.composite_metadata import CompositeMetadata
        try:
            items = CompositeMetadata().parse(bytes(payload.metadata)).items
        except Exception:
            items = []
    for it in items:
        try:
            if bytes(it.encoding) == TAG_MIME:
                return int(bytes(it.content).decode())
        except Exception:
            pass
    return None


def _make_route_fn(world, t, name, sig):
    from rsocket.payload import Payload
    from rsocket.extensions.composite_metadata import CompositeMetadata

    async def body(payload, cm, got):
        iid = _find_tag(payload, cm)
        world.rec('route', type=t, route=name, iid=iid, sig=sig,
                  got={k: type(v).__name__ for k, v in got.items()})
        if world.plan.get('route_delay'):
            await asyncio.sleep(world.plan['route_delay'])
        if t == 'response':
            return Payload(app.content(iid if iid is not None else 99, 'r', 0, 'D', 20), None)
        if t == 'stream':
            return app.ManualPublisher(world, 'server', iid if iid is not None else 99, 'responder', 'r',
                                       {'count': 2, 'lens': [[12, None]], 'end': 'separate'})
        if t == 'channel':
            pub = app.ManualPublisher(world, 'server', iid if iid is not None else 99, 'responder', 'r',
                                      {'count': 1, 'lens': [[12, None]], 'end': 'flag'})
            return pub, None
        return None

    if sig == 'payload':
        async def fn(payload):
            return await body(payload, None, {'payload': payload})
    elif sig == 'payload_annot':
        async def fn(p: Payload):
            return await body(p, None, {'p': p})
    elif sig == 'cm_named':
        async def fn(composite_metadata):
            return await body(None, composite_metadata, {'composite_metadata': composite_metadata})
    elif sig == 'cm_annot':
        async def fn(meta: CompositeMetadata):
            return await body(None, meta, {'meta': meta})
    elif sig == 'both':
        async def fn(payload, composite_metadata):
            return await body(payload, composite_metadata, {'payload': payload, 'composite_metadata': composite_metadata})
    elif sig == 'both_annot':
        async def fn(p: Payload, m: CompositeMetadata):
            return await body(p, m, {'p': p, 'm': m})
    elif sig == 'typed_payload':
        async def fn(message: Msg, p: Payload):
            return await body(p, None, {'message': message, 'p': p})
    elif sig == 'typed_plain_cm':
        async def fn(message: Msg, request, composite_metadata):
            return await body(request, composite_metadata, {'message': message, 'request': request, 'composite_metadata': composite_metadata})
    else:
        async def fn():
            return await body(None, None, {})
    return fn


class Msg:
    """A custom-typed parameter: produced by the router's payload_deserializer."""

    def __init__(self, payload):
        self.payload = payload


EXPECT_PARAM = {'typed_payload': {'message': 'Msg', 'p': 'Payload'},
                'typed_plain_cm': {'message': 'Msg', 'request': 'Payload', 'composite_metadata': 'CompositeMetadata'},
                'payload': {'payload': 'Payload'}, 'payload_annot': {'p': 'Payload'},
                'cm_named': {'composite_metadata': 'CompositeMetadata'}, 'cm_annot': {'meta': 'CompositeMetadata'},
                'both': {'payload': 'Payload', 'composite_metadata': 'CompositeMetadata'},
                'both_annot': {'p': 'Payload', 'm': 'CompositeMetadata'}, 'none': {}}


def _run(world, plan):
    from rsocket.rsocket_client import RSocketClient
    from rsocket.rsocket_server import RSocketServer
    from rsocket.routing.request_router import RequestRouter
    from rsocket.routing.routing_request_handler import RoutingRequestHandler
    from rsocket.extensions.mimetypes import WellKnownMimeTypes
    from rsocket.extensions.helpers import composite, route, authenticate_simple, authenticate_bearer, metadata_item
    from rsocket.extensions.authentication import AuthenticationSimple, AuthenticationBearer
    from rsocket.payload import Payload
    from .exec_core import build_link, make_transports
    loop = world.loop
    link = build_link(world, plan)
    world.link = link

    router = RequestRouter(payload_deserializer=lambda cls, payload: cls(payload) if cls is Msg else payload)
    for t in TYPES:
        for name, sig in plan['table'].get(t, {}).items():
            getattr(router, t)(name)(_make_route_fn(world, t, name, sig))
        if t in plan.get('unknown', {}):
            getattr(router, t + '_unknown')()(_make_route_fn(world, t, '<unknown>', plan['unknown'][t]))

    verifier = None
    if plan.get('auth'):
        acfg = plan['auth']

        async def verifier(route_name, authentication):
            world.rec('auth', route=route_name, kind=type(authentication).__name__)
            if acfg.get('delay'):
                await asyncio.sleep(acfg['delay'])
            if route_name in acfg.get('deny_routes', ()):
                raise Exception('Authentication rejected for this route')
            if isinstance(authentication, AuthenticationSimple):
                if bytes(authentication.username).decode() != acfg['accept_user']:
                    raise Exception('Authentication rejected')
            elif isinstance(authentication, AuthenticationBearer):
                if bytes(authentication.token).decode() != acfg['accept_token']:
                    raise Exception('Authentication rejected')
            else:
                raise Exception('Authentication rejected')

    flip = plan.get('direction') == 's2c'
    routed_ep = 'client' if flip else 'server'  # where the RoutingRequestHandler lives
    asking_ep = 'server' if flip else 'client'  # who issues the requests

    class RecRouting(RoutingRequestHandler):
        async def on_close(self, rsocket, exception=None):
            world.rec('hnd', ep=routed_ep, method='on_close')

    def boot():
        ct, st, pump = make_transports(world, plan, link)
        H = app.handler_class()
        server = RSocketServer(st, handler_factory=(lambda: H(world, 'server', {}, None)) if flip else (lambda: RecRouting(router, verifier)),
                               fragment_size_bytes=plan['server'].get('fragment'),
                               keep_alive_period=timedelta(seconds=1000), max_lifetime_period=timedelta(seconds=10000))
        world.tap_endpoint('server', server)
        if pump is not None:
            loop.create_task(pump())
        H = app.handler_class()

        async def provider():
            yield ct

        client = RSocketClient(provider(), handler_factory=(lambda: RecRouting(router, verifier)) if flip else (lambda: H(world, 'client', {}, None)),
                               metadata_encoding=WellKnownMimeTypes.MESSAGE_RSOCKET_COMPOSITE_METADATA,
                               fragment_size_bytes=plan['client'].get('fragment'),
                               keep_alive_period=timedelta(seconds=1000), max_lifetime_period=timedelta(seconds=10000))
        world.tap_endpoint('client', client)
        loop.create_task(client.connect())

    loop.call_soon(boot)

    def build_metadata(rq):
        items = []
        for what in rq['order']:
            if what == 'route' and rq['route'] is not None:
                items.append(route(*rq['route']))
            elif what == 'auth' and rq.get('auth'):
                a = rq['auth']
                items.append(authenticate_simple(a[1], a[2]) if a[0] == 'simple' else authenticate_bearer(a[1]))
            elif what == 'tag':
                items.append(metadata_item(str(rq['id']).encode(), TAG_MIME))
            elif what == 'extra' and rq['id'] % 2:
                items.append(metadata_item(b'{"k": 1}', WellKnownMimeTypes.APPLICATION_JSON))
            elif what == 'empty':
                items.append(metadata_item(b'', WellKnownMimeTypes.TEXT_PLAIN if rq['id'] % 3 else b'x-empty/none'))
        return composite(*items)

    def issue(rq):
        client = world.endpoints[asking_ep]
        iid = rq['id']
        kind = KIND_OF[rq['type']]
        md = build_metadata(rq)
        world.rec('act', ep='client', what='request', iid=iid, kind=kind)
        try:
            if kind == 'push':
                client.metadata_push(md)
                return
            payload = Payload(app.content(iid, 'q', 0, 'D', rq['dlen']), md)
            if kind == 'fnf':
                client.fire_and_forget(payload)
            elif kind == 'rr':
                fut = client.request_response(payload)

                def done(f):
                    if f.cancelled():
                        world.rec('fut', ep='client', iid=iid, role='requester', state='cancelled')
                    elif f.exception() is not None:
                        world.rec('fut', ep='client', iid=iid, role='requester', state='exception',
                                  err='%s: %s' % (type(f.exception()).__name__, str(f.exception())[:100]))
                    else:
                        world.rec('fut', ep='client', iid=iid, role='requester', state='result',
                                  data=app.nb(f.result().data), metadata=app.nb(f.result().metadata))

                fut.add_done_callback(done)
            else:
                sub = app.RecSubscriber(world, 'client', iid, 'requester', {'initial_n': 0x7FFFFFFF}, requester_side=True)
                pub = client.request_stream(payload) if kind == 'stream' else client.request_channel(payload, None)
                pub.subscribe(sub)
        except Exception as e:
            world.rec('act', ep='client', what='request_failed', iid=iid, err='%s: %s' % (type(e).__name__, str(e)[:100]))

    for rq in plan['requests']:
        loop.call_at(0.01 + rq['at'], issue, rq)

    if plan.get('close'):
        cl = plan['close']

        def do_close():
            world.rec('fault', what='close', who=cl['who'])
            world.fault_fired('close')

            async def run():
                try:
                    await world.endpoints[cl['who']].close()
                except Exception as e:
                    world.rec('log', level='HARNESS', msg='close raised %r' % (e,), exc=None)
                world.rec('act', ep=cl['who'], what='close_returned')

            loop.create_task(run())

        loop.call_at(cl['at'], lambda: loop.call_after_hops(cl.get('hops', 0), do_close))

    loop.run_sim(until_time=plan['horizon'])
    world.rec('mark', what='settled')
    for name in ('client', 'server'):
        try:
            world.observe_final(name)
        except Exception:
            pass

    async def closer():
        for name in ('client', 'server'):
            try:
                await world.endpoints[name].close()
            except Exception:
                pass

    loop.call_soon(lambda: loop.create_task(closer()))
    loop.run_sim(until_time=loop.time() + 1.0)
    for e in loop.exceptions:
        world.rec('loopexc', **e)
    loop.exceptions.clear()


def oracle_c19(world):
    out = []
    V = lambda cls, msg, seq=None, **f: out.append(Violation('C19', 'C19.' + cls, msg, seq, **f))
    plan = world.plan
    h = world.history
    mark = next((e['seq'] for e in h if e['k'] == 'mark'), float('inf'))
    routes = [e for e in h if e['k'] == 'route' and e['seq'] < mark]
    for rq in plan['requests']:
        iid = rq['id']
        exp = expected_outcome(plan, rq)
        ran = [e for e in routes if e.get('iid') == iid]
        kind = KIND_OF[rq['type']]
        facts = dict(type=rq['type'], expected=exp[0], reason=exp[1] if exp[0] == 'error' else 'dispatch',
                     auth_configured=bool(plan.get('auth')), framing=plan.get('framing', 'tcp'))
        if exp[0] == 'error':
            if ran:
                cls = 'auth_bypassed' if exp[1].startswith('auth') else 'handler_ran_for_invalid_request'
                V(cls, 'request %d (%s, %s): route handler %s/%s ran' % (iid, rq['type'], exp[1], ran[0]['type'], ran[0]['route']),
                  ran[0]['seq'], **facts)
            if kind == 'rr':
                f = [e for e in h if e['k'] == 'fut' and e.get('iid') == iid and e['seq'] < mark]
                if not f or f[0]['state'] != 'exception':
                    V('error_not_reported', 'request-response %d (%s) did not fail at the requester: %s'
                      % (iid, exp[1], f[0]['state'] if f else 'pending'), None, **facts)
            elif kind in ('stream', 'channel'):
                evs = [e for e in h if e['k'] == 'sub' and e.get('iid') == iid and e['seq'] < mark]
                if not [e for e in evs if e['cb'] == 'on_error']:
                    V('error_not_reported', '%s %d (%s) got no error signal' % (kind, iid, exp[1]), None, **facts)
            continue
        _, t, name = exp
        if len(ran) != 1:
            V('handler_count', 'request %d (%s route %s): %d route handlers ran' % (iid, t, rq['route'], len(ran)), None, **facts)
            continue
        e = ran[0]
        if (e['type'], e['route']) != (t, name):
            V('wrong_handler', 'request %d (%s route %s) dispatched to %s/%s instead of %s/%s'
              % (iid, t, rq['route'], e['type'], e['route'], t, name), e['seq'], **facts)
        if e['got'] != EXPECT_PARAM[e['sig']]:
            V('wrong_parameters', 'handler %s/%s (%s) received %s' % (e['type'], e['route'], e['sig'], e['got']), e['seq'],
              sig=e['sig'], **facts)
        if kind == 'rr':
            f = [x for x in h if x['k'] == 'fut' and x.get('iid') == iid and x['seq'] < mark]
            if not f or f[0]['state'] != 'result' or f[0]['data'] != app.nb(app.content(iid, 'r', 0, 'D', 20)):
                V('valid_request_failed', 'request-response %d did not get its handler\'s answer: %s'
                  % (iid, (f[0]['state'], f[0].get('err')) if f else 'pending'), None, **facts)
        elif kind in ('stream', 'channel'):
            evs = [x for x in h if x['k'] == 'sub' and x.get('iid') == iid and x['seq'] < mark]
            if [x for x in evs if x['cb'] == 'on_error']:
                V('valid_request_failed', '%s %d errored although its route handler ran' % (kind, iid), None, **facts)
    # a handler that ran for a request nobody made
    known = {rq['id'] for rq in plan['requests']}
    for e in routes:
        if e.get('iid') not in known:
            V('unattributable_dispatch', 'route handler %s/%s ran for an unknown request' % (e['type'], e['route']), e['seq'])
    return out


def oracle_c08_routing(world):
    """C08 through the routing handler: a fire-and-forget responder emits nothing on that stream and a metadata-push is
    never answered - also when the routed request is refused (no route, no or rejected authentication)."""
    out = []
    V = lambda cls, msg, seq=None, **f: out.append(Violation('C08', 'C08.' + cls, msg, seq, **f))
    plan = world.plan
    h = world.history
    mark = next((e['seq'] for e in h if e['k'] == 'mark'), float('inf'))
    fnf_sids = {}
    ask_dir, ans_dir = ('s2c', 'c2s') if plan.get('direction') == 's2c' else ('c2s', 's2c')
    for e in h:
        if e['k'] == 'wire' and e['dir'] == ask_dir and e['f']['type'] == 'REQUEST_FNF' and e['seq'] < mark:
            fnf_sids.setdefault(e['f']['sid'], e['seq'])
    for e in h:
        if e['k'] != 'wire' or e['dir'] != ans_dir or e['seq'] > mark:
            continue
        f = e['f']
        if f['sid'] in fnf_sids and e['seq'] > fnf_sids[f['sid']]:
            V('type_not_allowed', '%s from the responder on stream %d, which is a fire-and-forget' % (f['type'], f['sid']), e['seq'],
              type=f['type'], kind='fnf', role='responder', routed=True, auth_configured=bool(plan.get('auth')))
            break
    return out


def oracle_c11_routing(world):
    """C11 with the routing handler in the way: close() while routed handlers are still running returns, the close
    notification is delivered once, the endpoint's tasks end and nothing the client asked for is left hanging."""
    out = []
    V = lambda cls, msg, seq=None, **f: out.append(Violation('C11', 'C11.' + cls, msg, seq, **f))
    plan = world.plan
    cl = plan.get('close')
    if not cl:
        return out
    h = world.history
    mark = next((e['seq'] for e in h if e['k'] == 'mark'), float('inf'))
    who = cl['who']
    facts = dict(ep=who, cause='close', framing=plan.get('framing', 'tcp'), routed=True)
    f = next((e for e in h if e['k'] == 'fault' and e.get('what') == 'close'), None)
    if f is None:
        return out
    if not [e for e in h if e['k'] == 'act' and e.get('what') == 'close_returned' and e['seq'] < mark]:
        V('close_did_not_return', '%s.close() called while routed handlers were running never returned' % who, f['seq'], **facts)
    for ep in ('client', 'server'):
        closes = [e for e in h if e['k'] == 'hnd' and e.get('ep') == ep and e.get('method') == 'on_close' and e['seq'] < mark]
        if not closes:
            V('close_not_notified', '%s: on_close not delivered after %s closed the connection' % (ep, who), None, **dict(facts, ep=ep))
    fin = [e for e in h if e['k'] == 'final']
    for e in fin:
        pend = [k for k, v in e['tasks'].items() if v == 'pending']
        if pend:
            V('tasks_alive', '%s: %s still running after close()' % (e['ep'], pend), e['seq'], tasks=','.join(pend), **dict(facts, ep=e['ep']))
    # requests of the client issued before the close are not left hanging
    for rq in plan['requests']:
        kind = KIND_OF[rq['type']]
        iid = rq['id']
        act = next((e for e in h if e['k'] == 'act' and e.get('what') == 'request' and e.get('iid') == iid), None)
        if act is None or act['seq'] > f['seq']:
            continue
        if kind == 'rr' and not [e for e in h if e['k'] == 'fut' and e.get('iid') == iid and e['seq'] < mark]:
            V('request_left_hanging', 'routed request-response %d still pending after close()' % iid, None, kind='rr', **facts)
        elif kind in ('stream', 'channel'):
            evs = [e for e in h if e['k'] == 'sub' and e.get('iid') == iid and e['seq'] < mark]
            if evs and not [e for e in evs if e['cb'] in ('on_complete', 'on_error') or (e['cb'] == 'on_next' and e.get('complete'))]:
                V('subscriber_left_hanging', 'routed %s %d got no terminal signal after close()' % (kind, iid), None, kind=kind, **facts)
    return out


def oracle_c12_routing(world):
    """C12 with the routing handler and its metadata decoders in the way: decoding terminates on every routing entry (empty
    tags included) and whatever the reference dispatch table says is served is served."""
    out = []
    V = lambda cls, msg, seq=None, **f: out.append(Violation('C12', 'C12.' + cls, msg, seq, **f))
    if world.stats.get('metadata_guard'):
        g = next(e for e in world.history if e['k'] == 'guard')
        V('nontermination', 'decoding the metadata of a routed request did not terminate (%d-byte metadata)' % g.get('input_len', -1),
          g['seq'], where='CompositeMetadata.parse', framing=world.plan.get('framing', 'tcp'))
    for v in oracle_c19(world):
        if v.cls in ('C19.valid_request_failed', 'C19.handler_count'):
            V('valid_request_not_served', v.msg, v.seq, via=v.cls, routed=True)
    return out
