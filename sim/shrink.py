"""Plan minimisation (ddmin-flavoured, plan-structure aware).  Every candidate is one
deterministic run; a candidate is kept when the same violation class (still not covered by a
known finding) reproduces."""
import copy

MAXN = 0x7FFFFFFF


def _candidates(plan):
    """Yield (description, mutated plan) in rough order of expected payoff."""
    ias = plan.get('interactions', [])
    n = len(ias)
    if n > 1:
        half = n // 2
        for lo, hi in ((0, half), (half, n)):
            p = copy.deepcopy(plan)
            p['interactions'] = ias[:lo] + ias[hi:]
            yield 'drop interactions %d..%d' % (lo, hi), p
        for i in range(n):
            p = copy.deepcopy(plan)
            del p['interactions'][i]
            yield 'drop interaction %d' % i, p
    for i in range(len(plan.get('faults', []))):
        p = copy.deepcopy(plan)
        del p['faults'][i]
        yield 'drop fault %d' % i, p
    for k in ('items', 'script', 'actions', 'frames'):
        seq = plan.get(k)
        if isinstance(seq, list) and len(seq) > 0:
            if len(seq) > 3:
                half = len(seq) // 2
                for lo, hi in ((0, half), (half, len(seq))):
                    p = copy.deepcopy(plan)
                    p[k] = seq[:lo] + seq[hi:]
                    yield 'drop %s %d..%d' % (k, lo, hi), p
            for i in range(len(seq)):
                p = copy.deepcopy(plan)
                del p[k][i]
                yield 'drop %s[%d]' % (k, i), p
    lp = plan.get('loop', {})
    if lp.get('eps'):
        p = copy.deepcopy(plan)
        p['loop']['eps'] = 0.0
        yield 'eps=0', p
    if lp.get('tie_perm'):
        p = copy.deepcopy(plan)
        p['loop'].pop('tie_perm')
        yield 'no tie perm', p
    for d in ('c2s', 's2c'):
        pol = plan.get('link', {}).get(d)
        if pol:
            if set(pol) - {'latency', 'seed'}:
                p = copy.deepcopy(plan)
                p['link'][d] = {'latency': pol.get('latency', 0.001), 'seed': pol.get('seed', 0)}
                yield 'plain link %s' % d, p
            for key in ('hops', 'jitter', 'gap', 'drain', 'chunk'):
                if key in pol and pol[key] not in (None, 'all', 'now'):
                    p = copy.deepcopy(plan)
                    p['link'][d].pop(key)
                    yield 'link %s no %s' % (d, key), p
            if pol.get('latency') not in (None, 0.001):
                p = copy.deepcopy(plan)
                p['link'][d]['latency'] = 0.001
                yield 'link %s latency 1ms' % d, p
    for ep in ('client', 'server'):
        cfg = plan.get(ep, {})
        for key, default in (('read_buf', None), ('keepalive_ms', None), ('max_sid', None), ('buggify', None)):
            if cfg.get(key) is not None:
                p = copy.deepcopy(plan)
                p[ep].pop(key)
                yield '%s default %s' % (ep, key), p
        if cfg.get('fragment') is not None:
            p = copy.deepcopy(plan)
            p[ep]['fragment'] = None
            yield '%s no fragmentation' % ep, p
            if cfg['fragment'] != 64:
                p = copy.deepcopy(plan)
                p[ep]['fragment'] = 64
                yield '%s fragment 64' % ep, p
    if plan.get('framing') == 'ws':
        p = copy.deepcopy(plan)
        p['framing'] = 'tcp'
        yield 'tcp framing', p
    for i, ia in enumerate(ias):
        for key in ('hops', 'cancel'):
            if ia.get(key):
                p = copy.deepcopy(plan)
                p['interactions'][i].pop(key)
                yield 'ia%d no %s' % (i, key), p
        if ia.get('at'):
            p = copy.deepcopy(plan)
            p['interactions'][i]['at'] = 0.0
            yield 'ia%d at 0' % i, p
        if ia.get('by') == 'server':
            p = copy.deepcopy(plan)
            p['interactions'][i]['by'] = 'client'
            yield 'ia%d by client' % i, p
        if ia.get('pub') is not None:
            p = copy.deepcopy(plan)
            p['interactions'][i]['pub'] = None
            yield 'ia%d no requester publisher' % i, p
        req = ia.get('req', {})
        if (req.get('dlen') or 0) > 16 or req.get('mlen'):
            p = copy.deepcopy(plan)
            p['interactions'][i]['req'] = {'dlen': 16, 'mlen': None}
            yield 'ia%d small request' % i, p
        for scname in ('resp', 'pub'):
            sc = ia.get(scname)
            if not isinstance(sc, dict):
                continue
            for key in ('pacing', 'hdelay', 'agen_delay', 'error_at', 'delay', 'hops', 'sub'):
                if sc.get(key) is not None:
                    p = copy.deepcopy(plan)
                    p['interactions'][i][scname].pop(key)
                    yield 'ia%d %s no %s' % (i, scname, key), p
            cnt = sc.get('count')
            if cnt:
                for c in sorted({0, 1, 2, cnt // 2, cnt - 1}):
                    if c < cnt:
                        p = copy.deepcopy(plan)
                        p['interactions'][i][scname]['count'] = c
                        if p['interactions'][i][scname].get('error_at') is not None:
                            p['interactions'][i][scname]['error_at'] = min(c, sc['error_at'])
                        yield 'ia%d %s count %d' % (i, scname, c), p
            lens = sc.get('lens')
            if lens and (len(lens) > 1 or (lens[0][0] or 0) > 16 or lens[0][1]):
                p = copy.deepcopy(plan)
                p['interactions'][i][scname]['lens'] = [[16, None]]
                yield 'ia%d %s small elements' % (i, scname), p
                if len(lens) > 1:
                    p = copy.deepcopy(plan)
                    p['interactions'][i][scname]['lens'] = [lens[0]]
                    yield 'ia%d %s one length' % (i, scname), p
            if (sc.get('dlen') or 0) > 16 or sc.get('mlen'):
                p = copy.deepcopy(plan)
                p['interactions'][i][scname]['dlen'] = 16
                p['interactions'][i][scname]['mlen'] = None
                yield 'ia%d %s small response' % (i, scname), p
            if sc.get('src') in ('agen', 'gen'):
                p = copy.deepcopy(plan)
                p['interactions'][i][scname]['src'] = 'manual'
                yield 'ia%d %s manual source' % (i, scname), p
            if sc.get('end') == 'flag':
                p = copy.deepcopy(plan)
                p['interactions'][i][scname]['end'] = 'separate'
                yield 'ia%d %s separate completion' % (i, scname), p
        for subpath in (('sub',), ('resp', 'sub')):
            holder = ia
            ok = True
            for k in subpath:
                holder = holder.get(k) if isinstance(holder, dict) else None
                if holder is None:
                    ok = False
                    break
            if not ok:
                continue
            for key in ('extra', 'refill_via', 'initial_via', 'cancel_hops', 'cancel_at', 'cancel_after', 'in_subscribe', 'cancel_in_subscribe'):
                if holder.get(key) is not None:
                    p = copy.deepcopy(plan)
                    h = p['interactions'][i]
                    for k in subpath:
                        h = h[k]
                    h.pop(key)
                    yield 'ia%d %s no %s' % (i, '.'.join(subpath), key), p
            if holder.get('initial_n') not in (None, MAXN) or holder.get('refill') not in (None, [MAXN]):
                p = copy.deepcopy(plan)
                h = p['interactions'][i]
                for k in subpath:
                    h = h[k]
                h['initial_n'] = MAXN
                h['refill'] = [MAXN]
                yield 'ia%d %s unbounded credit' % (i, '.'.join(subpath)), p


def shrink(plan, still_fails, budget=250):
    """still_fails(plan) -> bool.  Returns (minimised plan, steps tried, steps kept)."""
    tried = kept = 0
    progress = True
    while progress and tried < budget:
        progress = False
        for desc, cand in _candidates(plan):
            if tried >= budget:
                break
            tried += 1
            try:
                ok = still_fails(cand)
            except Exception:
                ok = False
            if ok:
                plan = cand
                kept += 1
                progress = True
                break
    return plan, tried, kept
