"""Batch runner: seeds -> plans -> executions -> oracles -> verdict, evidence, replay files."""
import concurrent.futures as cf
import faulthandler
import hashlib
import json
import multiprocessing
import os
import signal
import sys
import time
import traceback
from collections import Counter

from . import plans as P
from . import oracles as O
from .world import HarnessError, history_to_jsonable

VERIF = os.path.dirname(os.path.dirname(os.path.abspath(__file__)))
RUN_WALL_LIMIT = 120  # seconds of real time for a single run: only a hang guard (harness error)


# ------------------------------------------------------------------------------------------
# executors (by plan['exec'])
# ------------------------------------------------------------------------------------------

def execute(plan):
    ex = plan.get('exec', 'core')
    if ex == 'core':
        from .exec_core import run_core
        return run_core(plan)
    from . import executors
    return executors.EXECUTORS[ex](plan)


class _Alarm(Exception):
    pass


def _on_alarm(signum, frame):
    raise _Alarm()


def run_plan(plan, props, want_history=False):
    """Execute one plan and evaluate the oracles of `props`. Returns a result dict."""
    from . import checks
    old = signal.signal(signal.SIGALRM, _on_alarm)
    signal.alarm(RUN_WALL_LIMIT)
    try:
        frozen = json.dumps(plan, sort_keys=True, default=repr)
        world = execute(plan)
        if json.dumps(plan, sort_keys=True, default=repr) != frozen:
            raise HarnessError('executor modified its plan: the replay file would not reproduce the run')
        an = O.Analysis(world) if plan.get('exec', 'core') in ('core',) else None
        violations = []
        for prop in props:
            for fn in checks.oracles_for(prop, plan):
                violations.extend(fn(an if an is not None else world))
        if world.incomplete:
            # the harness gave up on this run (iteration cap: a link that trickles a large payload in tiny chunks) and tore
            # the connection down: what the application then sees is the harness's doing. Only the termination guard's
            # verdict stands; such runs are counted (health.runs_stopped_at_iteration_cap) and fail the check above 2 %.
            violations = [v for v in violations if v.cls.endswith('.nontermination')]
    finally:
        signal.alarm(0)
        signal.signal(signal.SIGALRM, old)
    res = {
        'violations': violations,
        'digest': world.final_digest,
        'incomplete': world.incomplete,
        'iters': world.loop.iters,
        'vtime': world.loop._now,
        'stats': world.stats,
        'faults': dict(world.faults),
        'probes': dict(world.probes),
        'signature': abstract_signature(world),
        'nontrivial': is_nontrivial(world),
        'frames': len([1 for e in world.history if e['k'] == 'wire']),
        # exceptions inside the harness's own callbacks (executor boot, scripted actions): the scenario did not run as planned
        # - typically a plan that shrinking has made invalid; the shrinker rejects such candidates
        'harness_exc': len([e for e in world.history if e['k'] == 'loopexc' and 'sim/exec_' in (e.get('message') or '')]),
        'connected_iter': next((e['it'] for e in world.history if e['k'] == 'act' and e.get('what') == 'connected'), None),
        'spans': _interaction_spans(world),
    }
    if want_history:
        res['history'] = world.history
    return res


def _interaction_spans(world):
    """iid -> (iteration of the request action, iteration of the last event of that interaction)."""
    spans = {}
    for e in world.history:
        iid = e.get('iid')
        if iid is None or e['k'] == 'mark':
            continue
        if e['k'] == 'act' and e.get('what') == 'request':
            spans[iid] = [e['it'], e['it']]
        elif iid in spans and e['k'] in ('sub', 'fut', 'pub', 'hnd'):
            spans[iid][1] = max(spans[iid][1], e['it'])
    return spans


def abstract_signature(world):
    """Hash of the seq-ordered (endpoint, event kind, stream ordinal, frame type, flags) list,
    with payload bytes, sizes and times abstracted away."""
    h = hashlib.blake2b(digest_size=8)
    ordinals = {}
    for ev in world.history:
        k = ev['k']
        if k in ('enq', 'rx', 'wire'):
            f = ev['f']
            sid = f.get('sid', 0)
            o = ordinals.setdefault(sid, len(ordinals))
            ep = ev.get('ep') or ev.get('dir')
            h.update(('%s|%s|%d|%s|%d%d%d;' % (k, ep, o, f.get('type'), bool(f.get('follows')),
                                                bool(f.get('complete')), bool(f.get('next')))).encode())
        elif k in ('sub', 'pub', 'fut', 'hnd', 'act', 'fault', 'conn'):
            h.update(('%s|%s|%s|%s;' % (k, ev.get('ep'), ev.get('cb') or ev.get('what') or ev.get('method') or ev.get('state'),
                                        ev.get('role'))).encode())
    return h.hexdigest()


def is_nontrivial(world):
    if sum(world.faults.values()) > 0:
        return True
    n = len(world.plan.get('interactions', ()))
    if n >= 2:
        return True
    return bool(world.plan.get('nontrivial'))


# ------------------------------------------------------------------------------------------
# worker
# ------------------------------------------------------------------------------------------

def _worker(args):
    prop, jobs, base_seed, keep = args
    from . import checks, findings
    faulthandler.enable()
    known = findings.load()
    agg = {'runs': 0, 'incomplete': 0, 'iters': 0, 'vtime': 0.0, 'frames': 0, 'faults': Counter(), 'probes': Counter(),
           'stats': Counter(), 'sigs': set(), 'violations': [], 'harness': [], 'by_profile': Counter(), 'samples': [],
           'viol_counts': Counter(), 'sweep_bases': 0, 'sweep_points_total': 0, 'sweep_points_run': 0,
           'sweep_bases_exhaustive': 0}
    def run_for_expand(p):
        return run_plan(p, [prop])

    def plan_iter():
        for profile, index, extra in jobs:
            try:
                for plan in checks.expand(prop, profile, base_seed, index, extra, run_for_expand):
                    yield profile, index, plan
            except _Alarm:
                agg['harness'].append({'profile': profile, 'index': index, 'error': 'wall-clock hang guard fired (base run)'})
            except HarnessError as e:
                agg['harness'].append({'profile': profile, 'index': index, 'error': 'HarnessError: %s' % e})
            except Exception:
                agg['harness'].append({'profile': profile, 'index': index, 'error': traceback.format_exc()[-1500:]})

    for profile, index, plan in plan_iter():
        if isinstance(plan, tuple) and plan[0] == 'meta':
            agg['sweep_bases'] += 1
            agg['sweep_points_total'] += plan[1]['points_total']
            agg['sweep_points_run'] += plan[1]['points_run']
            if plan[1]['points_total'] == plan[1]['points_run']:
                agg['sweep_bases_exhaustive'] += 1
            continue
        try:
            res = run_plan(plan, [prop])
        except _Alarm:
            agg['harness'].append({'profile': profile, 'index': index, 'error': 'wall-clock hang guard fired'})
            continue
        except HarnessError as e:
            agg['harness'].append({'profile': profile, 'index': index, 'error': 'HarnessError: %s' % e})
            continue
        except Exception:
            agg['harness'].append({'profile': profile, 'index': index, 'error': traceback.format_exc()[-1500:]})
            continue
        agg['runs'] += 1
        agg['by_profile'][profile] += 1
        if res['incomplete']:
            agg['incomplete'] += 1
        agg['iters'] += res['iters']
        agg['vtime'] += res['vtime']
        agg['frames'] += res['frames']
        agg['faults'].update(res['faults'])
        agg['probes'].update(res['probes'])
        for k in ('drain_stalls', 'chunks', 'bytes_c2s', 'bytes_s2c', 'unfinished'):
            if k in res['stats']:
                agg['stats'][k] += res['stats'][k]
        if res['nontrivial']:
            agg['sigs'].add(res['signature'])
        if len(agg['samples']) < 1:
            agg['samples'].append({'profile': profile, 'index': index, 'plan': plan})
        seen = set()
        # unknown violations first so that a known finding of the same class cannot hide them
        ordered = sorted(res['violations'], key=lambda x: findings.match(known, prop, x.cls, x.facts) is not None)
        for v in ordered:
            if v.prop != prop or v.cls in seen:
                continue
            seen.add(v.cls)
            agg['viol_counts'][v.cls] += 1
            kf = findings.match(known, prop, v.cls, v.facts)
            tag = kf['id'] if kf else None
            if sum(1 for x in agg['violations'] if x['class'] == v.cls and x['known'] == tag) < keep:
                agg['violations'].append({'class': v.cls, 'facts': v.facts, 'message': v.msg, 'profile': profile,
                                          'index': index, 'plan': plan, 'iters': res['iters'], 'known': tag})
    agg['faults'] = dict(agg['faults'])
    agg['probes'] = dict(agg['probes'])
    agg['stats'] = dict(agg['stats'])
    agg['by_profile'] = dict(agg['by_profile'])
    agg['viol_counts'] = dict(agg['viol_counts'])
    return agg


def run_jobs(prop, jobs, base_seed, workers=None, keep=3, wall_cap=None):
    """jobs: list of (profile, index, extra). Returns the merged aggregate."""
    workers = workers or min(16, os.cpu_count() or 1)
    workers = max(1, min(workers, len(jobs)))
    chunks = [[] for _ in range(workers * 4)]
    for i, j in enumerate(jobs):
        chunks[i % len(chunks)].append(j)
    chunks = [c for c in chunks if c]
    total = {'runs': 0, 'incomplete': 0, 'iters': 0, 'vtime': 0.0, 'frames': 0, 'faults': Counter(), 'probes': Counter(),
             'stats': Counter(), 'sigs': set(), 'violations': [], 'harness': [], 'by_profile': Counter(), 'samples': [],
             'viol_counts': Counter(), 'timed_out': False, 'sweep_bases': 0, 'sweep_points_total': 0,
             'sweep_points_run': 0, 'sweep_bases_exhaustive': 0}
    t0 = time.time()
    if workers == 1:
        results = [_worker((prop, c, base_seed, keep)) for c in chunks]
    else:
        ctx = multiprocessing.get_context('fork')
        results = []
        with cf.ProcessPoolExecutor(max_workers=workers, mp_context=ctx) as pool:
            futs = [pool.submit(_worker, (prop, c, base_seed, keep)) for c in chunks]
            try:
                for f in cf.as_completed(futs, timeout=wall_cap):
                    try:
                        results.append(f.result())
                    except Exception as e:
                        total['harness'].append({'error': 'worker died: %r' % (e,)})
            except cf.TimeoutError:
                total['timed_out'] = True
                for f in futs:
                    f.cancel()
                for p in list(pool._processes.values()):
                    try:
                        p.kill()
                    except Exception:
                        pass
    for r in results:
        for k in ('runs', 'incomplete', 'iters', 'vtime', 'frames', 'sweep_bases', 'sweep_points_total', 'sweep_points_run',
                  'sweep_bases_exhaustive'):
            total[k] += r[k]
        for k in ('faults', 'probes', 'stats', 'by_profile', 'viol_counts'):
            total[k].update(r[k])
        total['sigs'] |= r['sigs']
        total['violations'].extend(r['violations'])
        total['harness'].extend(r['harness'])
        if len(total['samples']) < 3:
            total['samples'].extend(r['samples'][:1])
    total['wall'] = time.time() - t0
    return total
