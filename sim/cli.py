"""simcheck: ./simcheck check <id> [--tier quick|thorough] | replay <file> | selftest | explore ...

Exit codes: 0 held on everything explored (known findings allowed); 1 violation;
2 harness error (incl. determinism mismatch); 3 incomplete.
"""
import argparse
import copy
import json
import os
import subprocess
import sys
import time

VERIF = os.path.dirname(os.path.dirname(os.path.abspath(__file__)))
OUT = os.environ.get('SIM_OUT', VERIF)  # development runs against mutants write elsewhere
REPO = os.environ.get('SIM_REPO', '/repo')
if REPO not in sys.path:
    sys.path.insert(0, REPO)
if VERIF not in sys.path:
    sys.path.insert(0, VERIF)

from sim import checks, runner, findings, shrink as shrinker  # noqa: E402
from sim.world import history_to_jsonable  # noqa: E402


def _plan_digest(plan):
    import hashlib
    return hashlib.sha256(json.dumps(plan, sort_keys=True).encode()).hexdigest()[:12]


def classify(known, prop, v):
    f = findings.match(known, prop, v['class'], v['facts'])
    return f


def replay_file(path, quiet=False):
    with open(path) as f:
        doc = json.load(f)
    plan = doc['plan']
    prop = doc['property']
    res = runner.run_plan(plan, [prop])
    classes = sorted({v.cls for v in res['violations'] if v.prop == prop})
    out = {'property': prop, 'classes': classes, 'digest': res['digest'], 'incomplete': res['incomplete']}
    if not quiet:
        for v in res['violations']:
            if v.prop == prop:
                print('violation: %s %s %s' % (v.cls, v.msg, json.dumps(v.facts, sort_keys=True)))
        print('digest %s' % res['digest'])
        if not classes:
            print('no violation of %s in this replay' % prop)
    return out


def fresh_replay(path, hashseed):
    """Replay in a fresh interpreter under another PYTHONHASHSEED; returns its JSON summary."""
    env = dict(os.environ)
    env['PYTHONHASHSEED'] = str(hashseed)
    p = subprocess.run([sys.executable, '-B', '-m', 'sim.cli', 'replay', path, '--json'], cwd=VERIF, env=env,
                       capture_output=True, text=True, timeout=600)
    for line in p.stdout.splitlines():
        if line.startswith('{"property"'):
            return json.loads(line)
    raise RuntimeError('fresh replay produced no summary: rc=%s out=%s err=%s' % (p.returncode, p.stdout[-500:], p.stderr[-800:]))


def determinism_selftest(prop, base_seed, n=12):
    """n plans executed twice in this process and once in a fresh interpreter with another hash
    seed; digests must agree. Returns list of mismatches."""
    jobs = checks.jobs_for(prop, 'quick')
    step = max(1, len(jobs) // n)
    sample = jobs[::step][:n]
    plans = [checks.make_plan(prop, profile, base_seed, index, extra) for profile, index, extra in sample]
    first = [runner.run_plan(copy.deepcopy(p), [prop])['digest'] for p in plans]
    # second pass in reverse order in the same process: catches state leaking from one run into the next
    second = [runner.run_plan(copy.deepcopy(p), [prop])['digest'] for p in reversed(plans)][::-1]
    digests = [(s_[0], s_[1], a, b) for s_, a, b in zip(sample, first, second)]
    mismatches = [(p, i) for p, i, a, b in digests if a != b]
    env = dict(os.environ)
    env['PYTHONHASHSEED'] = '4242'
    spec = json.dumps({'prop': prop, 'base_seed': base_seed, 'sample': [(p, i, x) for p, i, x in sample]})
    pr = subprocess.run([sys.executable, '-B', '-m', 'sim.cli', 'digests', spec], cwd=VERIF, env=env,
                        capture_output=True, text=True, timeout=900)
    try:
        other = json.loads(pr.stdout.strip().splitlines()[-1])
    except Exception:
        return ['fresh interpreter failed: %s' % pr.stderr[-500:]], len(digests)
    for (p, i, a, _), o in zip(digests, other):
        if a != o:
            mismatches.append((p, i, 'hashseed'))
    return mismatches, len(digests)


def cmd_digests(spec):
    spec = json.loads(spec)
    out = []
    for p, i, x in spec['sample']:
        plan = checks.make_plan(spec['prop'], p, spec['base_seed'], i, x)
        out.append(runner.run_plan(plan, [spec['prop']])['digest'])
    print(json.dumps(out))


def minimise(prop, v, known):
    cls = v['class']
    base_harness_exc = runner.run_plan(copy.deepcopy(v['plan']), [prop]).get('harness_exc')

    def still_fails(plan):
        res = runner.run_plan(plan, [prop])
        if res.get('harness_exc') and not base_harness_exc:
            return False  # the reduction broke the scenario itself (an executor callback raised)
        for x in res['violations']:
            if x.prop == prop and x.cls == cls and findings.match(known, prop, x.cls, x.facts) is None:
                return True
        return False

    plan, tried, kept = shrinker.shrink(copy.deepcopy(v['plan']), still_fails)
    return plan, tried, kept


def write_replay(prop, v, plan, extra):
    res = runner.run_plan(copy.deepcopy(plan), [prop], want_history=True)
    vs = [x for x in res['violations'] if x.prop == prop and x.cls == v['class']]
    doc = {'property': prop, 'class': v['class'], 'message': vs[0].msg if vs else v['message'],
           'facts': vs[0].facts if vs else v['facts'], 'digest': res['digest'], 'origin': v['plan'].get('_id'),
           'minimisation': extra, 'plan': plan,
           'trace_tail': history_to_jsonable([e for e in res['history'] if e['k'] != 'wire'][-60:])}
    name = '%s-%s-%s.json' % (prop, v['class'].split('.', 1)[1], _plan_digest(plan))
    path = os.path.join(OUT, 'replays', name)
    os.makedirs(os.path.dirname(path), exist_ok=True)
    with open(path, 'w') as f:
        json.dump(doc, f, indent=1, sort_keys=True, default=repr)
    return path, doc


def cmd_check(prop, tier, base_seed, workers, no_selftest=False, limit=None):
    t0 = time.time()
    spec = checks.CHECKS[prop]
    known = findings.load()
    harness_errors = []
    self_n = 0
    if not no_selftest:
        mism, self_n = determinism_selftest(prop, base_seed, n=8 if tier == 'quick' else 24)
        if mism:
            print('HARNESS-ERROR determinism self-test mismatch: %s' % mism[:5])
            harness_errors.append('determinism mismatch %s' % mism[:5])
    jobs = checks.jobs_for(prop, tier)
    if limit:
        jobs = jobs[:limit]
    agg = runner.run_jobs(prop, jobs, base_seed, workers=workers)
    harness_errors.extend(h.get('error', '')[-300:] for h in agg['harness'])
    # classify
    known_hits = {}
    unknown = {}
    for v in agg['violations']:
        f = classify(known, prop, v)
        if f is not None:
            known_hits.setdefault(f['id'], (f, v))
        else:
            unknown.setdefault(v['class'], v)
    reported = []
    for cls, v in sorted(unknown.items()):
        try:
            plan, tried, kept = minimise(prop, v, known)
            path, doc = write_replay(prop, v, plan, {'candidates_tried': tried, 'reductions_kept': kept})
            fresh = fresh_replay(path, 777)
            ok = cls in fresh['classes'] and fresh['digest'] == doc['digest']
            if not ok:
                # fall back to the unminimised plan
                path, doc = write_replay(prop, v, v['plan'], {'candidates_tried': tried, 'reductions_kept': 0,
                                                               'note': 'minimised plan did not replay identically'})
                fresh = fresh_replay(path, 777)
                ok = cls in fresh['classes'] and fresh['digest'] == doc['digest']
            if not ok:
                harness_errors.append('violation %s does not replay deterministically (%s)' % (cls, path))
                print('HARNESS-ERROR violation %s did not reproduce in a fresh interpreter: %s' % (cls, path))
                continue
            reported.append((cls, path, doc))
            print('VIOLATION property=%s replay=%s' % (prop, path))
            print('  class=%s facts=%s' % (cls, json.dumps(doc['facts'], sort_keys=True)))
            print('  %s' % doc['message'])
        except Exception as e:
            import traceback
            harness_errors.append('minimise/replay failed for %s: %r' % (cls, e))
            print('HARNESS-ERROR while minimising %s: %s' % (cls, traceback.format_exc()[-600:]))
    for fid, (f, v) in sorted(known_hits.items()):
        print('KNOWN-FINDING: property=%s %s [%s] %s' % (prop, f['id'], v['class'], f['description']))
    wall = time.time() - t0
    evidence = {
        'property_id': prop,
        'tier': tier,
        'seed': base_seed,
        'level': spec['level'],
        'coverage': {
            'evaluations': agg['runs'],
            'distinct_nontrivial': len(agg['sigs']),
            'rule': ('each evaluation is one deterministic simulated execution of a seed-generated scenario plan; '
                     'distinct = different abstract trace signature (seq-ordered endpoint/event kind/stream ordinal/'
                     'frame type/flags, payload bytes, sizes and times abstracted); non-trivial = at least two '
                     'interactions in the run or at least one fault fired'),
            'samples': [{'profile': s['profile'], 'index': s['index'], 'plan': s['plan']} for s in agg['samples'][:2]],
            'runs_by_profile': dict(agg['by_profile']),
            'runs_per_hour': int(agg['runs'] / max(agg['wall'], 1e-9) * 3600),
            'simulated_seconds': round(agg['vtime'], 3),
            'loop_iterations': agg['iters'],
            'frames_on_wire': agg['frames'],
            'faults_fired': dict(agg['faults']),
            'link_stats': dict(agg['stats']),
            'probes': dict(agg['probes']),
            'health': {'runs_stopped_at_iteration_cap': agg['incomplete']},
            'determinism_selftest_plans': self_n,
            'violation_classes_seen': dict(agg['viol_counts']),
            'known_findings_hit': sorted(known_hits),
            'real_components': checks.REAL_COMPONENTS.get(prop, checks.REAL_DEFAULT),
            'stub_components': checks.STUB_DEFAULT,
            'exhaustive': False,
        },
        'assumptions': checks.ASSUMPTIONS.get(prop, checks.ASSUMPTIONS_DEFAULT),
        'wall_s': round(wall, 2),
        'violations': len(reported),
    }
    if agg['by_profile'].get('frag-grid'):
        evidence['coverage'].update({
            'length_window_points_run': agg['by_profile']['frag-grid'],
            'length_window_points_total': checks.grid_total(),
            'length_window': ('fragment size in %s x framing {tcp, ws} x data length 0..2F+24 x metadata length {none, 0..2F+24}; each point '
                              'runs request-response, fire-and-forget, request-stream and two request-channels with that payload shape; '
                              'quick strides through the window, thorough visits every point of it up to a budget of %d points (else every k-th point)'
                              % (list(checks.P.FRAG_GRID_F), checks.GRID_BUDGET)),
        })
    if agg['by_profile'].get('peer-script-grid'):
        from . import profiles_peer as _PP
        evidence['coverage'].update({
            'peer_sequence_points_run': agg['by_profile']['peer-script-grid'],
            'peer_sequence_points_total': _PP.peer_grid_size(),
            'peer_sequence_space': ('real endpoint role {client, server} x model {request-response, stream, channel} x side {requester, '
                                    'responder} x every sequence of 0..%d protocol-legal peer frames (NEXT, NEXT|COMPLETE, COMPLETE, ERROR, '
                                    'REQUEST_N, CANCEL as far as legal in that state); local actions, timings and the connection end are '
                                    'seeded per point; quick strides through the space, thorough visits every point once' % _PP.PEER_GRID_MAXLEN),
        })
    if agg.get('sweep_bases'):
        evidence['coverage'].update({
            'sweep_base_plans': agg['sweep_bases'],
            'fault_points_enumerated': agg['sweep_points_run'],
            'fault_points_in_base_plans': agg['sweep_points_total'],
            'sweep_base_plans_fully_enumerated': agg['sweep_bases_exhaustive'],
            'sweep_note': ('each base plan is executed fault-free once; then once per fault point (every byte offset x mode x '
                           'direction and every loop iteration for close(), or every loop iteration of the targeted interaction '
                           'for cancel()); above the per-base cap the points are stride-subsampled, so the enumeration is '
                           'exhaustive only for the base plans counted in sweep_base_plans_fully_enumerated'),
        })
    os.makedirs(os.path.join(OUT, 'evidence'), exist_ok=True)
    with open(os.path.join(OUT, 'evidence', prop + '.json'), 'w') as f:
        json.dump(evidence, f, indent=1, sort_keys=True, default=repr)
    if tier == 'thorough':
        # the per-check evidence file is rewritten by every run; keep the deep run's record as well
        os.makedirs(os.path.join(OUT, 'evidence', 'thorough'), exist_ok=True)
        with open(os.path.join(OUT, 'evidence', 'thorough', prop + '.json'), 'w') as f:
            json.dump(evidence, f, indent=1, sort_keys=True, default=repr)
    print('%s tier=%s seed=%d runs=%d distinct=%d incomplete=%d wall=%.1fs faults=%s'
          % (prop, tier, base_seed, agg['runs'], len(agg['sigs']), agg['incomplete'], wall, dict(agg['faults'])))
    if reported:
        return 1
    if harness_errors:
        for h in harness_errors[:5]:
            print('HARNESS-ERROR %s' % h)
        return 2
    if agg['timed_out'] or agg['runs'] < len(jobs) or agg['incomplete'] > max(5, 0.02 * len(jobs)):
        print('HARNESS-INCOMPLETE runs=%d of %d incomplete=%d timed_out=%s' % (agg['runs'], len(jobs), agg['incomplete'],
                                                                               agg['timed_out']))
        return 3
    return 0


def cmd_explore(prop, profile, n, start, base_seed, workers):
    """Development aid: run n plans of one profile and print violation classes with an example index."""
    jobs = [(profile, i, None) for i in range(start, start + n)]
    agg = runner.run_jobs(prop, jobs, base_seed, workers=workers, keep=2)
    known = findings.load()
    print('runs=%d wall=%.1fs distinct=%d incomplete=%d faults=%s stats=%s' % (
        agg['runs'], agg['wall'], len(agg['sigs']), agg['incomplete'], dict(agg['faults']), dict(agg['stats'])))
    print('probes', dict(agg['probes']))
    for h in agg['harness'][:5]:
        print('HARNESS', h.get('profile'), h.get('index'), h.get('error')[-800:])
    seen = {}
    for v in agg['violations']:
        seen.setdefault(v['class'], []).append(v)
    for cls, vs in sorted(seen.items()):
        f = findings.match(known, prop, cls, vs[0]['facts'])
        dump = '/tmp/explore_%s.json' % cls
        with open(dump, 'w') as fh:
            json.dump({'property': prop, 'class': cls, 'plan': vs[0]['plan']}, fh)
        print('%5d %s %s e.g. index=%d iters=%d facts=%s\n        %s\n        plan: %s' % (
            agg['viol_counts'][cls], cls, '[known %s]' % f['id'] if f else '', vs[0]['index'], vs[0]['iters'],
            json.dumps(vs[0]['facts'], sort_keys=True), vs[0]['message'], dump))


def main(argv=None):
    ap = argparse.ArgumentParser(prog='simcheck')
    sub = ap.add_subparsers(dest='cmd', required=True)
    c = sub.add_parser('check')
    c.add_argument('prop')
    c.add_argument('--tier', default=os.environ.get('VERIF_TIER', 'quick'), choices=['quick', 'thorough'])
    c.add_argument('--workers', type=int, default=None)
    c.add_argument('--no-selftest', action='store_true')
    c.add_argument('--limit', type=int, default=None)
    r = sub.add_parser('replay')
    r.add_argument('path')
    r.add_argument('--json', action='store_true')
    d = sub.add_parser('digests')
    d.add_argument('spec')
    e = sub.add_parser('explore')
    e.add_argument('prop')
    e.add_argument('profile')
    e.add_argument('-n', type=int, default=200)
    e.add_argument('--start', type=int, default=0)
    e.add_argument('--workers', type=int, default=None)
    s = sub.add_parser('show')
    s.add_argument('prop')
    s.add_argument('profile')
    s.add_argument('index', type=int, nargs='?', default=0)
    s.add_argument('--sid', type=int, default=None)
    s.add_argument('--wire', action='store_true')
    st = sub.add_parser('selftest')
    st.add_argument('--n', type=int, default=40)
    args = ap.parse_args(argv)
    base_seed = int(os.environ.get('VERIF_SEED', '1'))
    if args.cmd == 'check':
        return cmd_check(args.prop, args.tier, base_seed, args.workers, args.no_selftest, args.limit)
    if args.cmd == 'replay':
        out = replay_file(args.path, quiet=args.json)
        if args.json:
            print(json.dumps(out))
        return 1 if out['classes'] else 0
    if args.cmd == 'digests':
        cmd_digests(args.spec)
        return 0
    if args.cmd == 'explore':
        cmd_explore(args.prop, args.profile, args.n, args.start, base_seed, args.workers)
        return 0
    if args.cmd == 'show':
        if args.profile.endswith('.json'):
            plan = json.load(open(args.profile))['plan']
        else:
            plan = checks.make_plan(args.prop, args.profile, base_seed, args.index)
        print(json.dumps(plan))
        res = runner.run_plan(plan, [args.prop], want_history=True)
        for v in res['violations']:
            print(v)
        for ev in history_to_jsonable(res['history']):
            if ev['k'] in ('tx',) or (ev['k'] in ('wire', 'rx') and not args.wire):
                continue
            if ev['k'] == 'enq' and ev['f']['type'] == 'KEEPALIVE':
                continue
            if args.sid is not None and 'f' in ev and ev['f'].get('sid') != args.sid:
                continue
            print(ev)
        print(res['stats'], res['incomplete'], res['iters'])
        return 0
    if args.cmd == 'selftest':
        bad = 0
        for prop in sorted(checks.CHECKS):
            mism, n = determinism_selftest(prop, base_seed, n=args.n)
            print('%s determinism: %d plans, %d mismatches %s' % (prop, n, len(mism), mism[:3]))
            bad += len(mism)
        return 2 if bad else 0
    return 2


if __name__ == '__main__':
    sys.exit(main())
