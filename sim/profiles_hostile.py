"""C12: hostile input (scripted RawPeer) and failing application code (buggify) are contained."""
import random

from . import app, refcodec as rc
from . import plans as P
from .oracles import Violation, Analysis, oracle_c01, REQ_TYPES
from .plans import _pick
from .exec_parser import _rb

MS = 0.001


# ---------------------------------------------------------------------------------------------
# hostile peer
# ---------------------------------------------------------------------------------------------

def _junk(rng, mode, live_sids, dead_sids):
    """One hostile item -> (frame spec, offending stream id or None if connection-level/undecodable)."""
    k = _pick(rng, [(3, 'random'), (2, 'short'), (2, 'unknown_type'), (3, 'truncated'), (3, 'unknown_stream'),
                    (2, 'finished_stream'), (2, 'orphan_fragment'), (2, 'out_of_place'), (1, 'ignore_garbage'),
                    (1, 'push_on_stream'), (2, 'empty'), (3, 'reserved_bits'), (2 if mode == 'ws' else 0, 'ws_text')])
    if k == 'empty':
        return {'raw': ''}, None
    if k == 'ws_text':
        return {'text': rng.choice(['hello', '', '{"op": "ping"}', 'x' * 300, '\u00e9\u00e8'])}, None
    if k == 'random':
        return {'raw': _rb(rng, rng.randint(1, 60)).hex()}, None
    if k == 'short':
        return {'raw': _rb(rng, rng.randint(1, 5)).hex()}, None
    if k == 'unknown_type':
        sid = rng.randint(100, 200) * 2 + 1
        return {'raw': (rc._hdr(sid, rng.choice([0, 15, 16, 40, 62, 63]), rng.randint(0, 0x3FF)) + _rb(rng, rng.randint(0, 20))).hex()}, sid
    if k == 'truncated':
        t = rng.choice(['SETUP', 'LEASE', 'KEEPALIVE', 'REQUEST_STREAM', 'REQUEST_CHANNEL', 'REQUEST_N', 'ERROR', 'RESUME',
                        'RESUME_OK'])
        need = {'SETUP': 12, 'LEASE': 8, 'KEEPALIVE': 8, 'REQUEST_STREAM': 4, 'REQUEST_CHANNEL': 4, 'REQUEST_N': 4,
                'ERROR': 4, 'RESUME': 6, 'RESUME_OK': 8}[t]
        sid = 0 if t in ('SETUP', 'LEASE', 'KEEPALIVE', 'RESUME', 'RESUME_OK') else rng.randint(100, 200) * 2 + 1
        return {'raw': (rc._hdr(sid, rc.TYPE_BY_NAME[t], 0) + _rb(rng, rng.randint(0, need - 1))).hex()}, sid
    if k == 'unknown_stream':
        sid = rng.randint(300, 400) * 2 + rng.randint(0, 1)
        t = rng.choice(['REQUEST_N', 'CANCEL', 'PAYLOAD', 'ERROR'])
        spec = {'t': t, 'sid': sid}
        if t == 'REQUEST_N':
            spec['n'] = rng.randint(1, 100)
        if t == 'PAYLOAD':
            spec.update(data=_rb(rng, rng.randint(0, 30)).hex(), next=True, complete=rng.random() < 0.5)
        if t == 'ERROR':
            spec.update(data=b'boo'.hex())
        return {'frame': spec}, sid
    if k == 'finished_stream' and dead_sids:
        sid = rng.choice(dead_sids)
        t = rng.choice(['REQUEST_N', 'CANCEL', 'PAYLOAD'])
        spec = {'t': t, 'sid': sid}
        if t == 'REQUEST_N':
            spec['n'] = 3
        if t == 'PAYLOAD':
            spec.update(data=b'late'.hex(), next=True, complete=True)
        return {'frame': spec}, sid
    if k == 'orphan_fragment':
        sid = rng.randint(500, 600) * 2 + 1
        return {'frame': {'t': 'PAYLOAD', 'sid': sid, 'data': _rb(rng, 20).hex(), 'next': True,
                          'follows': rng.random() < 0.7, 'complete': False}}, sid
    if k == 'out_of_place':
        t = rng.choice(['RESUME_OK', 'LEASE', 'RESUME'])
        if t == 'LEASE':
            return {'frame': {'t': 'LEASE', 'ttl_ms': rng.randint(1, 1000), 'n': rng.randint(0, 10)}}, 0
        if t == 'RESUME':
            return {'frame': {'t': 'RESUME', 'token': '0a0b'}}, 0
        return {'frame': {'t': 'RESUME_OK', 'position': rng.randint(0, 1000)}}, 0
    if k == 'ignore_garbage':
        t = rng.choice(['SETUP', 'REQUEST_N', 'ERROR', 'RESUME'])
        return {'raw': (rc._hdr(rng.randint(1, 100), rc.TYPE_BY_NAME[t], rc.F_IGNORE) + _rb(rng, rng.randint(0, 3))).hex()}, None
    if k == 'reserved_bits':
        # well-formed frames whose reserved bits / extreme field values a conforming peer never produces
        w = rng.choice(['keepalive_pos', 'keepalive_pos', 'request_n', 'sid_top', 'flags', 'md_len'])
        if w == 'keepalive_pos':
            pos = rng.choice([(1 << 63) | rng.randint(0, 1000), (1 << 64) - 1, (1 << 63) - 1, 1 << 63])
            return {'raw': (rc._hdr(0, rc.TYPE_BY_NAME['KEEPALIVE'], rc.F_FOLLOWS if rng.random() < 0.8 else 0)
                            + pos.to_bytes(8, 'big') + _rb(rng, rng.randint(0, 6))).hex()}, None
        if w == 'request_n':
            sid = rng.randint(300, 400) * 2 + rng.randint(0, 1)
            n = rng.choice([0, 1 << 31, (1 << 32) - 1, (1 << 31) | 5])
            return {'raw': (rc._hdr(sid, rc.TYPE_BY_NAME['REQUEST_N'], 0) + n.to_bytes(4, 'big')).hex()}, sid
        if w == 'sid_top':
            sid = rng.randint(300, 400) * 2 + 1
            return {'raw': (rc._hdr(sid | (1 << 31), rc.TYPE_BY_NAME['CANCEL'], 0)).hex()}, sid
        if w == 'flags':
            sid = rng.randint(300, 400) * 2 + 1
            return {'raw': (rc._hdr(sid, rc.TYPE_BY_NAME[rng.choice(['CANCEL', 'REQUEST_N', 'PAYLOAD'])], 0x1F)
                            + (5).to_bytes(4, 'big')).hex()}, sid
        sid = rng.randint(300, 400) * 2 + 1
        return {'raw': (rc._hdr(sid, rc.TYPE_BY_NAME['PAYLOAD'], rc.F_METADATA | rc.F_NEXT)
                        + (rng.randint(10, 0xFFFFFF)).to_bytes(3, 'big') + _rb(rng, rng.randint(0, 5))).hex()}, sid
    if k == 'push_on_stream':
        sid = rng.randint(700, 800) * 2 + 1
        return {'frame': {'t': 'METADATA_PUSH', 'sid': sid, 'md': _rb(rng, 10).hex()}}, sid
    return {'raw': _rb(rng, rng.randint(6, 40)).hex()}, None


def gen_hostile(seed, opts=None):
    rng = random.Random(seed ^ 0xBAD)
    role = _pick(rng, [(3, 'server'), (2, 'client')])
    framing = _pick(rng, [(1, 'tcp'), (1, 'ws')])
    plan = {'exec': 'peer', 'profile': 'hostile', 'seed': seed, 'role': role, 'framing': framing, 'loop': {'eps': 0.0},
            'endpoint': {'keepalive_ms': 10_000_000, 'fragment': _pick(rng, [(3, None), (1, 64)]),
                         'read_buf': _pick(rng, [(2, 1024), (1, 1), (1, 7)])},
            'link': {'c2s': {'latency': 0.001, 'seed': 1, 'chunk': _pick(rng, [(2, 'all'), (1, 1), (1, 3), (1, 'rand')])},
                     's2c': {'latency': 0.001, 'seed': 2, 'chunk': _pick(rng, [(2, 'all'), (1, 1), (1, 3), (1, 'rand')])}},
            'auto': {'keepalive': 'echo'}, 'nontrivial': True}
    script = []
    t = 0
    if role == 'server':
        script.append({'at': 0.0, 'frame': {'t': 'SETUP', 'keepalive_ms': 10_000_000, 'lifetime_ms': 20_000_000}})
    t = 5
    parity = 1 if role == 'server' else 0  # ids the peer may open
    next_sid = 1 if parity else 2
    interactions = []
    iid = 0
    started = []
    offending = []
    n_items = rng.randint(1, 12)
    n_valid = rng.randint(0, 4)
    kinds = ['junk'] * n_items + ['valid'] * n_valid
    rng.shuffle(kinds)
    for kind in kinds:
        t += rng.choice([0, 0, 1, 3])
        if kind == 'valid':
            sid = next_sid
            next_sid += 2
            ia = {'id': iid, 'kind': 'rr', 'by': 'peer', 'sid': sid,
                  'resp': {'mode': _pick(rng, [(3, 'now'), (1, 'delay')]), 'delay': 0.002, 'dlen': rng.randint(1, 100), 'mlen': None}}
            data = app.content(iid, 'q', 0, 'D', rng.randint(8, 60))
            script.append({'at': t * MS, 'frame': {'t': 'REQUEST_RESPONSE', 'sid': sid, 'data': data.hex()}})
            interactions.append(ia)
            started.append((sid, t))
            iid += 1
        else:
            # only streams that have certainly finished (answered long ago) count as 'finished'
            dead = [s_ for s_, t_ in started if t - t_ >= 15]
            item, sid = _junk(rng, framing, [], dead)
            raw = item.get('raw')
            if raw is not None and len(raw) >= 8:
                # whatever stream id the junk happens to spell is the stream it offends
                sid = int(raw[:8], 16) & 0x7FFFFFFF
            if framing == 'tcp' and item.get('raw') == '' and False:
                pass
            step = {'at': t * MS}
            if 'frame' in item:
                step['frame'] = item['frame']
            elif 'text' in item:
                step['frame'] = {'text': item['text']}
            else:
                step['frame'] = {'raw': item['raw']}
            script.append(step)
            offending.append(sid)
    # the probe: a valid request after everything hostile has been sent
    t += 20
    sid = next_sid
    ia = {'id': iid, 'kind': 'rr', 'by': 'peer', 'sid': sid, 'probe': True,
          'resp': {'mode': 'now', 'dlen': 32, 'mlen': None}}
    script.append({'at': t * MS, 'frame': {'t': 'REQUEST_RESPONSE', 'sid': sid, 'data': app.content(iid, 'q', 0, 'D', 24).hex()}})
    interactions.append(ia)
    rng2 = random.Random(seed ^ 0x0B0E)  # separate stream: the plans above stay what they were
    if rng2.random() < 0.5:
        # the endpoint's own probe: a request it issues itself after everything hostile has arrived must still go out
        # (e.g. an unsolicited LEASE on a connection without leasing must not start to throttle it)
        interactions.append({'id': iid + 1, 'kind': 'rr', 'by': role, 'at': (t - 10) * MS, 'own_probe': True,
                             'req': {'dlen': 16, 'mlen': None}})
        plan['auto']['respond'] = 'complete'
    plan['script'] = script
    plan['interactions'] = interactions
    plan['offending_sids'] = sorted({s for s in offending if s is not None})
    plan['horizon'] = t * MS + 1.0
    return plan


def oracle_c12_hostile(world):
    out = []
    V = lambda cls, msg, seq=None, **f: out.append(Violation('C12', 'C12.' + cls, msg, seq, **f))
    plan = world.plan
    h = world.history
    role = plan['role']
    facts0 = dict(role=role, framing=plan.get('framing', 'tcp'))
    mark = next((e['seq'] for e in h if e['k'] == 'mark'), float('inf'))
    if world.stats.get('parser_guard'):
        g = next(e for e in h if e['k'] == 'guard')
        V('nontermination', 'processing of one input did not terminate (FrameParser.receive_data, %d-byte input)'
          % g.get('input_len', -1), g['seq'], input_len=g.get('input_len'), **facts0)
    out_dir = 's2c' if role == 'server' else 'c2s'
    emitted = [e for e in h if e['k'] == 'wire' and e['dir'] == out_dir and e['seq'] < mark]
    valid = {ia['sid']: ia for ia in plan['interactions'] if ia.get('by') == 'peer'}
    if any(ia.get('own_probe') for ia in plan['interactions']):
        world.probe('own_probe', 1)
        if not any(e['f']['type'] == 'REQUEST_RESPONSE' for e in emitted):
            V('own_request_not_sent', 'a request the endpoint issued after the hostile input was never written', None, **facts0)
    offending = set(plan.get('offending_sids', []))
    # valid requests (probe included) answered correctly
    for sid, ia in valid.items():
        resp = ia['resp']
        exp = (app.nb(app.content(ia['id'], 'r', 0, 'D', resp['dlen'])), b'')
        frames = [e for e in emitted if e['f']['sid'] == sid]
        units = []
        cur = None
        for e in frames:
            f = e['f']
            if f['type'] == 'PAYLOAD':
                if cur is None:
                    cur = {'data': b'', 'md': b'', 'complete': False}
                cur['data'] += f['data'] or b''
                cur['md'] += f['metadata'] or b''
                if not f.get('follows'):
                    cur['complete'] = f.get('complete')
                    units.append(cur)
                    cur = None
        errs = [e for e in frames if e['f']['type'] == 'ERROR']
        what = 'probe_not_served' if ia.get('probe') else 'valid_request_not_served'
        facts = dict(facts0, probe=bool(ia.get('probe')))
        if errs:
            V(what, 'valid request on stream %d answered with ERROR %s' % (sid, errs[0]['f'].get('code_name')), errs[0]['seq'], **facts)
        elif not units:
            V(what, 'valid request on stream %d was never answered' % sid, None, **facts)
        elif (units[0]['data'], units[0]['md']) != exp or not units[0]['complete'] or len(units) > 1:
            V('valid_response_corrupt', 'response on stream %d is not what the handler produced' % sid, None, **facts)
    # errors confined to offending streams
    for e in emitted:
        f = e['f']
        if f['type'] == 'ERROR' and f['sid'] in valid:
            pass  # reported above
        elif f['type'] == 'ERROR' and f['sid'] != 0 and f['sid'] not in offending:
            V('error_on_innocent_stream', 'ERROR on stream %d which no hostile input referred to' % f['sid'], e['seq'], **facts0)
    # endpoint alive
    fin = next((e for e in h if e['k'] == 'final'), None)
    if fin is not None:
        dead = [k for k in ('_sender_task', '_receiver_task') if fin['tasks'].get(k) not in ('pending',)]
        if dead:
            V('endpoint_task_died', '%s no longer running after hostile input' % ','.join(dead), fin['seq'],
              tasks=','.join(dead), **facts0)
    closes = [e for e in h if e['k'] == 'hnd' and e['method'] == 'on_close' and e['seq'] < mark]
    if closes:
        V('connection_taken_down', 'the endpoint closed the connection after hostile input', closes[0]['seq'], **facts0)
    return out


# ---------------------------------------------------------------------------------------------
# failing application code
# ---------------------------------------------------------------------------------------------

ENTRY_BY_KIND = {'rr': 'request_response', 'stream': 'request_stream', 'channel': 'request_channel',
                 'fnf': 'request_fire_and_forget', 'push': 'on_metadata_push'}


def gen_buggify(seed, opts=None):
    opts = dict(opts or {})
    rng = random.Random(seed ^ 0xB066)
    opts.setdefault('cancels', 0.0)
    opts.setdefault('n_interactions', [(1, 2), (2, 3), (2, 4), (1, 6)])
    plan = P.gen_core(seed, opts)
    plan['profile'] = 'buggify'
    for ep in ('client', 'server'):
        pts = [p for p in ENTRY_BY_KIND.values() if rng.random() < 0.25]
        if pts:
            plan[ep]['buggify'] = {p: _pick(rng, [(3, 'app'), (1, 'keyerror_int'), (1, 'oserror'), (1, 'value_dict'), (1, 'noargs'),
                                                   (1, 'odd'), (1, 'bytes_arg')]) for p in pts}
    for ia in plan['interactions']:
        for sc in (ia.get('resp'), ia.get('pub')):
            if sc and sc.get('src') == 'manual' and rng.random() < 0.15:
                sc[rng.choice(['bug_subscribe', 'bug_request'])] = True
        # subscribers whose callbacks fail (requester side of streams and channels, responder side of channels)
        for sub in (ia.get('sub'), (ia.get('resp') or {}).get('sub')):
            if sub is not None and ia['kind'] in ('stream', 'channel') and rng.random() < 0.12:
                sub['raise_in'] = {'cb': _pick(rng, [(3, 'on_next'), (1, 'on_complete'), (1, 'on_error')]), 'at': rng.randint(1, 3)}
    # probes after the storm, one in each direction
    last = max([ia['at'] for ia in plan['interactions']] + [0]) + 0.5
    n = len(plan['interactions'])
    for k, by in enumerate(('client', 'server')):
        plan['interactions'].append({'id': n + k, 'kind': 'rr', 'by': by, 'at': round(last + 0.01 * k, 4), 'probe': True,
                                     'req': {'dlen': 16, 'mlen': None}, 'resp': {'mode': 'now', 'dlen': 24, 'mlen': None}})
    plan['nontrivial'] = True
    return plan


def oracle_c12_buggify(an):
    out = []
    V = lambda cls, msg, seq=None, **f: out.append(Violation('C12', 'C12.' + cls, msg, seq, **f))
    plan = an.plan
    bug = {ep: set((plan.get(ep, {}).get('buggify') or {}).keys()) for ep in ('client', 'server')}
    bugged = set()
    for iid, ia in an.ia.items():
        if ia.get('probe'):
            continue
        resp_ep = an.responder(iid)
        if ENTRY_BY_KIND[ia['kind']] in bug[resp_ep]:
            bugged.add(iid)
        for sc in (ia.get('resp'), ia.get('pub')):
            if sc and (sc.get('bug_subscribe') or sc.get('bug_request')):
                bugged.add(iid)
        for sub in (ia.get('sub'), (ia.get('resp') or {}).get('sub')):
            if sub and sub.get('raise_in'):
                bugged.add(iid)
    probe_bugged = {iid for iid, ia in an.ia.items() if ia.get('probe') and 'request_response' in bug[an.responder(iid)]}
    # interactions that do not touch failing application code behave per C01
    for v in oracle_c01(an):
        iid = v.facts.get('iid')
        if iid in bugged or iid in probe_bugged:
            continue
        ia = an.ia.get(iid, {})
        V('innocent_interaction_disturbed' if not ia.get('probe') else 'probe_not_served',
          '%s [%s]' % (v.msg, v.cls), v.seq, via=v.cls, kind=ia.get('kind'))
    # failing code is answered on its own stream: the requester sees an error, nothing hangs
    for iid in bugged:
        ia = an.ia[iid]
        if not an.requested(iid) or an.request_failed(iid):
            continue
        kind = ia['kind']
        facts = dict(kind=kind, entry=ENTRY_BY_KIND[kind])
        resp_ep = an.responder(iid)
        entry_bug = ENTRY_BY_KIND[kind] in bug[resp_ep]
        if kind == 'rr' and entry_bug:
            f = an.futs.get((iid, 'requester'), [])
            if not f or f[0]['state'] != 'exception':
                V('failure_not_reported', 'request-response %d whose handler raised: requester saw %s'
                  % (iid, f[0]['state'] if f else 'nothing'), None, **facts)
        elif kind in ('stream', 'channel') and entry_bug:
            evs = an.subs.get((iid, 'requester'), [])
            if evs and not [e for e in evs if e['cb'] == 'on_error']:
                V('failure_not_reported', '%s %d whose handler raised: requester got no error' % (kind, iid), None, **facts)
    # endpoint alive
    for ev in an.by_kind['final']:
        dead = [k for k in ('_sender_task', '_receiver_task') if ev['tasks'].get(k) != 'pending']
        if dead:
            V('endpoint_task_died', '%s: %s no longer running after application failures' % (ev['ep'], ','.join(dead)),
              ev['seq'], ep=ev['ep'], tasks=','.join(dead))
    for ev in an.by_kind['hnd']:
        if ev['method'] == 'on_close':
            V('connection_taken_down', '%s closed the connection after an application failure' % ev['ep'], ev['seq'], ep=ev['ep'])
            break
    return out


# ---------------------------------------------------------------------------------------------
# C13 (second clause): an incoming request that reuses an id still active on the receiver
# ---------------------------------------------------------------------------------------------

def _gen_id_reuse_own(seed, rng, role, framing):
    """The peer sends a request whose id is one the real endpoint itself has opened (the endpoint's parity) and that is
    still pending: rejected, and the endpoint's own request is answered normally afterwards."""
    sid = 1 if role == 'client' else 2
    ia0 = {'id': 0, 'kind': 'rr', 'by': role, 'at': 0.004, 'req': {'dlen': 20, 'mlen': None}}
    dup_kind = _pick(rng, [(2, 'rr'), (1, 'stream'), (1, 'channel'), (1, 'fnf')])
    ia1 = {'id': 1, 'kind': dup_kind, 'by': 'peer', 'sid': sid, 'resp': {'mode': 'now', 'dlen': 10, 'mlen': None}}
    if dup_kind in ('stream', 'channel'):
        ia1['resp'] = {'src': 'manual', 'count': 2, 'lens': [[8, None]], 'end': 'separate'}
    t_type = {'rr': 'REQUEST_RESPONSE', 'stream': 'REQUEST_STREAM', 'channel': 'REQUEST_CHANNEL', 'fnf': 'REQUEST_FNF'}
    script = []
    if role == 'server':
        script.append({'at': 0.0, 'frame': {'t': 'SETUP', 'keepalive_ms': 10_000_000, 'lifetime_ms': 20_000_000}})
    script.append({'at': round(0.010 + rng.choice([0, 0.001, 0.02]), 4),
                   'frame': {'t': t_type[dup_kind], 'sid': sid, 'n': 5, 'data': app.content(1, 'q', 0, 'D', 20).hex()}})
    # the peer answers the endpoint's own request afterwards
    script.append({'at': 0.1, 'frame': {'t': 'PAYLOAD', 'sid': sid, 'data': app.content(0, 'r', 0, 'D', 24).hex(), 'next': True, 'complete': True}})
    return {'exec': 'peer', 'profile': 'id-reuse', 'seed': seed, 'role': role, 'framing': framing, 'loop': {'eps': 0.0},
            'endpoint': {'keepalive_ms': 10_000_000}, 'auto': {'keepalive': 'echo'},
            'link': {'c2s': {'latency': 0.001, 'seed': 1}, 's2c': {'latency': 0.001, 'seed': 2}},
            'script': script, 'interactions': [ia0, ia1], 'horizon': 1.0, 'nontrivial': True,
            'reuse': {'sid': sid, 'first_kind': 'rr', 'dup_kind': dup_kind, 'count': 1, 'n0': 1, 'own_parity': True}}


def gen_id_reuse(seed, opts=None):
    rng = random.Random(seed ^ 0x1D2E)
    role = _pick(rng, [(2, 'server'), (1, 'client')])
    framing = _pick(rng, [(2, 'tcp'), (1, 'ws')])
    if rng.random() < 0.3:
        return _gen_id_reuse_own(seed, rng, role, framing)
    sid = (1 if role == 'server' else 2) + 2 * rng.randint(0, 5)
    first_kind = _pick(rng, [(3, 'stream'), (2, 'channel'), (1, 'rr')])
    count = rng.randint(2, 6)
    n0 = rng.randint(1, count - 1) if first_kind != 'rr' else 1
    ia0 = {'id': 0, 'kind': first_kind, 'by': 'peer', 'sid': sid}
    if first_kind == 'rr':
        ia0['resp'] = {'mode': 'delay', 'delay': 0.05, 'dlen': 20, 'mlen': None}
    else:
        ia0['resp'] = {'src': _pick(rng, [(1, 'manual'), (1, 'gen'), (1, 'agen')]), 'count': count, 'lens': [[rng.randint(1, 40), None]],
                       'end': 'separate'}
        if first_kind == 'channel':
            ia0['resp']['sub'] = {'initial_n': 1, 'refill': [1]}
    dup_kind = _pick(rng, [(1, 'rr'), (1, 'stream'), (1, 'channel'), (1, 'fnf')])
    ia1 = {'id': 1, 'kind': dup_kind, 'by': 'peer', 'sid': sid, 'resp': {'mode': 'now', 'dlen': 10, 'mlen': None}}
    if dup_kind in ('stream', 'channel'):
        ia1['resp'] = {'src': 'manual', 'count': 2, 'lens': [[8, None]], 'end': 'separate'}
    t_type = {'rr': 'REQUEST_RESPONSE', 'stream': 'REQUEST_STREAM', 'channel': 'REQUEST_CHANNEL', 'fnf': 'REQUEST_FNF'}
    script = []
    if role == 'server':
        script.append({'at': 0.0, 'frame': {'t': 'SETUP', 'keepalive_ms': 10_000_000, 'lifetime_ms': 20_000_000}})
    script.append({'at': 0.005, 'frame': {'t': t_type[first_kind], 'sid': sid, 'n': n0, 'data': app.content(0, 'q', 0, 'D', 20).hex()}})
    script.append({'at': round(0.010 + rng.choice([0, 0.001, 0.02]), 4),
                   'frame': {'t': t_type[dup_kind], 'sid': sid, 'n': 5, 'data': app.content(1, 'q', 0, 'D', 20).hex()}})
    if first_kind != 'rr':
        script.append({'at': 0.1, 'frame': {'t': 'REQUEST_N', 'sid': sid, 'n': 100}})
    plan = {'exec': 'peer', 'profile': 'id-reuse', 'seed': seed, 'role': role, 'framing': framing, 'loop': {'eps': 0.0},
            'endpoint': {'keepalive_ms': 10_000_000}, 'auto': {'keepalive': 'echo'},
            'link': {'c2s': {'latency': 0.001, 'seed': 1}, 's2c': {'latency': 0.001, 'seed': 2}},
            'script': script, 'interactions': [ia0, ia1], 'horizon': 1.0, 'nontrivial': True,
            'reuse': {'sid': sid, 'first_kind': first_kind, 'dup_kind': dup_kind, 'count': count, 'n0': n0}}
    return plan


def oracle_c13_reuse(world):
    out = []
    V = lambda cls, msg, seq=None, **f: out.append(Violation('C13', 'C13.' + cls, msg, seq, **f))
    plan = world.plan
    h = world.history
    ru = plan['reuse']
    role = plan['role']
    sid = ru['sid']
    facts = dict(role=role, first_kind=ru['first_kind'], dup_kind=ru['dup_kind'], framing=plan.get('framing', 'tcp'))
    mark = next((e['seq'] for e in h if e['k'] == 'mark'), float('inf'))
    out_dir = 's2c' if role == 'server' else 'c2s'
    emitted = [e for e in h if e['k'] == 'wire' and e['dir'] == out_dir and e['f']['sid'] == sid and e['seq'] < mark]
    hnd = [e for e in h if e['k'] == 'hnd' and e.get('iid') == 1 and e['seq'] < mark]
    if hnd:
        V('duplicate_id_accepted', 'a %s request re-using the active id %d reached the application handler' % (ru['dup_kind'], sid),
          hnd[0]['seq'], **facts)
    rejected = [e for e in emitted if e['f']['type'] == 'ERROR' and e['f'].get('code_name') == 'REJECTED']
    if not rejected:
        V('duplicate_id_not_rejected', 'no ERROR[REJECTED] for a request re-using the active id %d' % sid, None, **facts)
    if ru.get('own_parity'):
        # the endpoint's own pending request is answered as if nothing had happened
        f = [e for e in h if e['k'] == 'fut' and e.get('iid') == 0 and e.get('role') == 'requester' and e['seq'] < mark]
        if not f or f[0]['state'] != 'result' or f[0].get('data') != app.nb(app.content(0, 'r', 0, 'D', 24)):
            V('original_stream_replaced', 'the endpoint\'s own request on id %d did not get its response after a peer request re-used the id (%s)'
              % (sid, f[0]['state'] if f else 'still pending'), None, own_parity=True, **facts)
        return out
    # the original stream keeps working
    if ru['first_kind'] == 'rr':
        exp = [app.nb(app.content(0, 'r', 0, 'D', 20))]
    else:
        exp = [app.nb(app.content(0, 'r', k, 'D', plan['interactions'][0]['resp']['lens'][0][0])) for k in range(ru['count'])]
    got = [e['f']['data'] for e in emitted if e['f']['type'] == 'PAYLOAD' and (e['f']['data'] or e['f']['metadata'])]
    if got != exp:
        foreign = any(g.startswith(b'D01') for g in got)
        V('original_stream_replaced' if foreign else 'original_stream_disturbed',
          'the stream that owned id %d delivered %d of %d elements after the duplicate request' % (sid, len(got), len(exp)),
          None, **facts)
    return out


# ---------------------------------------------------------------------------------------------
# C10: "the stream's id can be used again" - a peer that re-uses an id the moment its stream has ended
# ---------------------------------------------------------------------------------------------

def gen_id_reuse_after_end(seed, opts=None):
    rng = random.Random(seed ^ 0x1DE2D)
    role = _pick(rng, [(2, 'server'), (1, 'client')])
    framing = _pick(rng, [(2, 'tcp'), (1, 'ws')])
    sid = (1 if role == 'server' else 2) + 2 * rng.randint(0, 5)
    first_kind = _pick(rng, [(3, 'rr'), (2, 'stream'), (2, 'channel')])
    ending = _pick(rng, [(3, 'cancel'), (2, 'complete')])
    count = rng.randint(1, 4)
    ia0 = {'id': 0, 'kind': first_kind, 'by': 'peer', 'sid': sid}
    if first_kind == 'rr':
        # cancelled while the handler's future is still pending / answered at once
        ia0['resp'] = {'mode': 'delay' if ending == 'cancel' else 'now', 'delay': _pick(rng, [(1, 0.05), (1, 0.002)]), 'dlen': 20, 'mlen': None}
        if rng.random() < 0.3:
            ia0['resp']['hdelay'] = ['hops', rng.randint(1, 3)]
    else:
        ia0['resp'] = {'src': _pick(rng, [(1, 'manual'), (1, 'gen'), (1, 'agen')]), 'count': count, 'lens': [[rng.randint(1, 40), None]],
                       'end': _pick(rng, [(1, 'separate'), (1, 'flag')])}
        if ending == 'cancel':
            ia0['resp']['pacing'] = 0.02
        if first_kind == 'channel':
            ia0['resp']['sub'] = {'initial_n': 1, 'refill': [1]}
    again_kind = _pick(rng, [(2, 'rr'), (1, 'stream'), (1, 'fnf')])
    ia1 = {'id': 1, 'kind': again_kind, 'by': 'peer', 'sid': sid, 'resp': {'mode': 'now', 'dlen': 10, 'mlen': None}}
    if again_kind == 'stream':
        ia1['resp'] = {'src': 'gen', 'count': 2, 'lens': [[8, None]], 'end': 'separate'}
    t_type = {'rr': 'REQUEST_RESPONSE', 'stream': 'REQUEST_STREAM', 'channel': 'REQUEST_CHANNEL', 'fnf': 'REQUEST_FNF'}
    script = []
    if role == 'server':
        script.append({'at': 0.0, 'frame': {'t': 'SETUP', 'keepalive_ms': 10_000_000, 'lifetime_ms': 20_000_000}})
    # (initial request-n: the maximum, or - from a careless peer - a value with the reserved top bit set)
    first = {'t': t_type[first_kind], 'sid': sid, 'n': _pick(rng, [(3, 0x7FFFFFFF), (1, 0x80000000), (1, 0xFFFFFFFF)]),
             'data': app.content(0, 'q', 0, 'D', 20).hex()}
    if first_kind == 'channel':
        first['complete'] = True  # the peer's own direction is closed from the start
    script.append({'at': 0.005, 'frame': first})
    if ending == 'cancel':
        t_end = round(0.005 + _pick(rng, [(1, 0.0), (1, 0.001), (1, 0.01)]), 4)
        script.append({'at': t_end, 'frame': {'t': 'CANCEL', 'sid': sid}})
        gap = _pick(rng, [(3, 0.0), (1, 0.001), (1, 0.02)])  # 0: in the same write as the CANCEL
    else:
        t_end = 0.2  # long after the response / the last element
        gap = 0.0
    script.append({'at': round(t_end + gap, 4), 'frame': {'t': t_type[again_kind], 'sid': sid, 'n': 5, 'data': app.content(1, 'q', 0, 'D', 20).hex()}})
    plan = {'exec': 'peer', 'profile': 'id-reuse-after-end', 'seed': seed, 'role': role, 'framing': framing, 'loop': {'eps': 0.0},
            'endpoint': {'keepalive_ms': 10_000_000, 'read_buf': _pick(rng, [(3, 1024), (1, 7)])}, 'auto': {'keepalive': 'echo'},
            'link': {'c2s': {'latency': 0.001, 'seed': 1, 'chunk': _pick(rng, [(3, 'all'), (1, 'frame'), (1, 3)])},
                     's2c': {'latency': 0.001, 'seed': 2, 'chunk': _pick(rng, [(3, 'all'), (1, 'frame'), (1, 3)])}},
            'script': script, 'interactions': [ia0, ia1], 'horizon': 1.0, 'nontrivial': True,
            'reuse': {'sid': sid, 'first_kind': first_kind, 'again_kind': again_kind, 'ending': ending}}
    return plan


def oracle_c10_reuse(world):
    out = []
    V = lambda cls, msg, seq=None, **f: out.append(Violation('C10', 'C10.' + cls, msg, seq, **f))
    plan = world.plan
    h = world.history
    ru = plan['reuse']
    role = plan['role']
    sid = ru['sid']
    facts = dict(role=role, first_kind=ru['first_kind'], again_kind=ru['again_kind'], ending=ru['ending'], framing=plan.get('framing', 'tcp'))
    mark = next((e['seq'] for e in h if e['k'] == 'mark'), float('inf'))
    in_dir = 'c2s' if role == 'server' else 's2c'
    out_dir = 's2c' if role == 'server' else 'c2s'
    again = [e for e in h if e['k'] == 'wire' and e['dir'] == in_dir and e['f']['sid'] == sid and e['f']['type'] in REQ_TYPES]
    if len(again) < 2:
        return out
    second = again[1]['seq']
    if ru['ending'] == 'complete':
        # only judged if the first stream had really ended before the id was used again
        ended = [e for e in h if e['k'] == 'wire' and e['dir'] == out_dir and e['f']['sid'] == sid and e['seq'] < second
                 and (e['f']['type'] == 'ERROR' or (e['f']['type'] == 'PAYLOAD' and e['f'].get('complete')))]
        if not ended:
            return out
    hnd = [e for e in h if e['k'] == 'hnd' and e.get('iid') == 1 and e['seq'] < mark]
    emitted = [e for e in h if e['k'] == 'wire' and e['dir'] == out_dir and e['f']['sid'] == sid and e['seq'] > second and e['seq'] < mark]
    rejected = [e for e in emitted if e['f']['type'] == 'ERROR']
    if rejected:
        V('reused_id_not_served', 'request re-using id %d after its stream ended (%s) was answered with ERROR %s'
          % (sid, ru['ending'], rejected[0]['f'].get('code_name')), rejected[0]['seq'], **facts)
    elif not hnd:
        V('reused_id_not_served', 'request re-using id %d after its stream ended (%s) never reached the handler' % (sid, ru['ending']),
          None, **facts)
    elif ru['again_kind'] in ('rr', 'stream'):
        n = 1 if ru['again_kind'] == 'rr' else 2
        ln = 10 if ru['again_kind'] == 'rr' else 8
        exp = [app.nb(app.content(1, 'r', k, 'D', ln)) for k in range(n)]
        got = [e['f']['data'] for e in emitted if e['f']['type'] == 'PAYLOAD' and (e['f']['data'] or e['f']['metadata'])]
        got = [g for g in got if g.startswith(b'D01')]
        if got != exp:
            V('reused_id_not_served', 'request re-using id %d after its stream ended (%s): %d of %d response payloads'
              % (sid, ru['ending'], len(got), len(exp)), None, **facts)
    fin = next((e for e in h if e['k'] == 'final'), None)
    if fin is not None and sid in fin.get('streams', []):
        V('stream_leaked', 'stream %d still registered at the end' % sid, fin['seq'], ep=role, **facts)
    return out
