"""'reconnect' profile (C17): one real RSocketClient whose transport provider hands out fresh
simulated links to fresh real servers; connections are ended by server EOF, reset, keepalive
timeout (silent server) or reconnect() while healthy."""
import asyncio
import random
from datetime import timedelta

from .world import World, SimCap
from . import net, app
from .oracles import Violation, REQ_TYPES
from .plans import _pick

MS = 0.001


def gen_reconnect(seed, opts=None):
    rng = random.Random(seed ^ 0x17EC)
    P = _pick(rng, [(2, 100), (2, 500), (1, 50)])
    L = P * rng.randint(3, 6)
    n_conn = _pick(rng, [(3, 1), (2, 2), (1, 3), (1, 4)])
    sweep_base = bool((opts or {}).get('sweep'))
    if sweep_base:
        n_conn = 1  # one reconnect, requested at every loop iteration in turn
    plan = {'exec': 'reconnect', 'profile': (opts or {}).get('name', 'reconnect'), 'seed': seed, 'loop': {'eps': _pick(rng, [(3, 0.0), (1, 1e-6)])},
            'client': {'keepalive_ms': P, 'lifetime_ms': L, 'fragment': _pick(rng, [(3, None), (1, 64)])},
            'link': {'c2s': {'latency': 0.001}, 's2c': {'latency': _pick(rng, [(2, 0.001), (1, 0.003)])}},
            'nontrivial': True, 'P_ms': P, 'L_ms': L}
    if rng.random() < 0.4:
        # transports whose connect() really suspends (websocket handshake, lazily dialled TCP)
        plan['connect_delay'] = _pick(rng, [(1, ['hops', rng.randint(1, 5)]), (1, ['time', _pick(rng, [(2, 0.001), (1, 0.02)])])])
    if rng.random() < 0.4:
        plan['on_close_sleep'] = _pick(rng, [(1, 0.0005), (1, 0.02), (1, 0.5)])
    if rng.random() < 0.3:
        # an application that asks for a reconnect from on_close in any case - also when something else (the script, the
        # keepalive-timeout callback) has already asked for this very connection: one reconnect, not two
        plan['on_close_also_reconnects'] = True
    big = rng.random() < 0.4
    if big:
        # servers that fragment what they send, and a link that delivers it piecemeal: a connection can end in the
        # middle of a fragmented frame (whatever was reassembled so far must not leak into the next connection)
        plan['server'] = {'fragment': _pick(rng, [(3, 64), (1, 100)])}
        plan['link']['s2c'].update(drain='delay', drain_delay=_pick(rng, [(1, 0.001), (1, 0.004)]), drain_prob=1.0)
    events = []
    t = 0.05
    ias = []
    iid = 0
    for k in range(n_conn):
        # some pending interactions on connection k
        for _ in range(rng.randint(0, 3)):
            kind = _pick(rng, [(3, 'rr'), (2, 'stream'), (1, 'channel'), (1, 'fnf')])
            ia = {'id': iid, 'kind': kind, 'by': 'client', 'at': round(t + rng.uniform(0, 0.02), 4), 'conn': k,
                  'req': {'dlen': rng.randint(8, 80), 'mlen': None}}
            if kind == 'rr':
                ia['resp'] = {'mode': _pick(rng, [(2, 'never'), (1, 'now'), (1, 'delay')]), 'delay': 0.005, 'dlen': 20, 'mlen': None}
                if big:
                    ia['resp'].update(mode=_pick(rng, [(1, 'never'), (2, 'now'), (2, 'delay')]), dlen=rng.randint(100, 400))
            elif kind in ('stream', 'channel'):
                ia['resp'] = {'src': _pick(rng, [(1, 'gen'), (1, 'agen'), (1, 'manual')]), 'count': rng.randint(1, 6),
                              'lens': [[rng.randint(1, 100), None]], 'end': 'separate', 'pacing': _pick(rng, [(1, 0), (2, 0.01)])}
                if big:
                    ia['resp']['lens'] = [[rng.randint(80, 300), None]]
                ia['sub'] = {'initial_n': _pick(rng, [(1, 1), (1, 0x7FFFFFFF)]), 'refill': [1]}
                if kind == 'channel':
                    ia['pub'] = None
                    ia['resp']['sub'] = None
            ias.append(ia)
            iid += 1
        cause = _pick(rng, [(3, 'server_eof'), (2, 'reset'), (2, 'keepalive_timeout'), (3, 'explicit')])
        if sweep_base:
            cause = 'explicit'
        t_end = round(t + 0.03 + rng.uniform(0, 0.02), 4)
        if big and rng.random() < 0.6:
            # the server asks too (fragmented requests travelling towards the client when the connection ends)
            for _ in range(rng.randint(1, 3)):
                ias.append({'id': iid, 'kind': 'rr', 'by': 'server', 'at': round(t_end - rng.uniform(0, 0.02), 4), 'conn': k,
                            'req': {'dlen': rng.randint(100, 400), 'mlen': None},
                            # 'delay': the client's handler answers when that connection is long gone (and a new one is up)
                            'resp': {'mode': _pick(rng, [(1, 'never'), (2, 'now'), (2, 'delay')]), 'delay': round(rng.uniform(0.2, 0.8), 3),
                                     'dlen': 20, 'mlen': None}})
                iid += 1
        via = 'script'
        if cause in ('server_eof', 'reset'):
            via = _pick(rng, [(2, 'on_close'), (2, 'script')])
        elif cause == 'keepalive_timeout':
            via = _pick(rng, [(3, 'on_keepalive_timeout'), (1, 'script')])
        events.append({'conn': k, 'cause': cause, 'at': t_end, 'via': via, 'hops': rng.randint(0, 4)})
        if big and cause in ('server_eof', 'reset') and rng.random() < 0.6:
            # the link dies at a byte offset of the server->client direction instead of at a time
            events[-1].update(cause='cut', offset=rng.randint(20, 700), mode='eof' if cause == 'server_eof' else 'reset')
        # time for the end to be noticed and the new connection to come up
        if cause == 'keepalive_timeout':
            t = t_end + 2 * L * MS + 0.3
        else:
            t = t_end + 0.3
        if via == 'script':
            events[-1]['reconnect_at'] = round(t, 4)
            t += 0.2
        # probe on the new connection
        ias.append({'id': iid, 'kind': 'rr', 'by': 'client', 'at': round(t, 4), 'conn': k + 1, 'probe': True,
                    'req': {'dlen': 16, 'mlen': None}, 'resp': {'mode': 'now', 'dlen': 24, 'mlen': None}})
        iid += 1
        if big:
            # ... and the new connection's server asks the client: ids restart at 2, nothing of the old connection may interfere
            for j in range(rng.randint(1, 2)):
                ias.append({'id': iid, 'kind': 'rr', 'by': 'server', 'at': round(t + 0.01 + 0.01 * j, 4), 'conn': k + 1, 'probe': True,
                            'req': {'dlen': _pick(rng, [(1, 16), (1, rng.randint(100, 300))]), 'mlen': None},
                            'resp': {'mode': 'now', 'dlen': 24, 'mlen': None}})
                iid += 1
        t += 0.1
    plan['events'] = events
    plan['interactions'] = ias
    plan['horizon'] = t + 2 * P * MS * 3 + 0.5
    if (opts or {}).get('lease') or rng.random() < 0.25:
        # lease-honouring client; every server publishes its lease a little after the connection is up
        late = [(3, 0.45)] if (opts or {}).get('lease') else []  # a lease that arrives after the first request of the connection
        plan['lease'] = {'delay': _pick(rng, [(1, 0.0), (1, 0.005), (1, 0.05)] + late), 'n': _pick(rng, [(1, 3), (3, 1000)]),
                         'ttl_us': 600_000_000}
        if sweep_base or any(e['cause'] == 'cut' for e in events):
            # a cut may end a connection earlier than planned, its remaining requests then run on the next one
            plan['lease']['n'] = 1000
    return plan


def gen_reconnect_connfail(seed, opts=None):
    """A dial that fails: the transport the provider hands out raises from connect() - at the very first connect or after a
    connection ended - and the application asks for a reconnect (from on_connection_error or a little later)."""
    rng = random.Random(seed ^ 0xC0FA)
    P = _pick(rng, [(2, 100), (2, 500)])
    L = P * rng.randint(3, 6)
    plan = {'exec': 'reconnect', 'profile': (opts or {}).get('name', 'reconnect-connfail'), 'seed': seed,
            'loop': {'eps': _pick(rng, [(3, 0.0), (1, 1e-6)])},
            'client': {'keepalive_ms': P, 'lifetime_ms': L, 'fragment': _pick(rng, [(3, None), (1, 64)])},
            'link': {'c2s': {'latency': 0.001}, 's2c': {'latency': 0.001}}, 'nontrivial': True, 'P_ms': P, 'L_ms': L}
    if rng.random() < 0.5:
        plan['connect_delay'] = _pick(rng, [(1, ['hops', rng.randint(1, 5)]), (1, ['time', _pick(rng, [(2, 0.001), (1, 0.02)])])])
    events, ias, fails = [], [], []
    iid = 0
    t = 0.05
    c = 0
    first_fails = rng.random() < 0.4
    rounds = rng.randint(1, 2)
    for r in range(rounds + 1):
        failing = (r == 0 and first_fails) or (r > 0 and rng.random() < 0.7)
        if failing:
            fails.append(c)
            via = _pick(rng, [(3, 'on_connection_error'), (1, 'script')])
            ev = {'conn': c, 'cause': 'connect_failed', 'at': round(t, 4), 'via': via, 'hops': 0}
            if via == 'script':
                ev['reconnect_at'] = round(t + 0.1, 4)
            events.append(ev)
            # a request issued while the dial is failing / has failed
            if rng.random() < 0.5:
                ias.append({'id': iid, 'kind': 'rr', 'by': 'client', 'at': round(t + rng.uniform(0, 0.05), 4), 'conn': c,
                            'req': {'dlen': 16, 'mlen': None}, 'resp': {'mode': 'now', 'dlen': 20, 'mlen': None}})
                iid += 1
            t += 0.3
            c += 1
        if r == rounds:
            break
        # a working connection with a little traffic, then it ends
        for _ in range(rng.randint(0, 2)):
            ias.append({'id': iid, 'kind': 'rr', 'by': 'client', 'at': round(t + rng.uniform(0, 0.02), 4), 'conn': c,
                        'req': {'dlen': rng.randint(8, 80), 'mlen': None},
                        'resp': {'mode': _pick(rng, [(1, 'never'), (2, 'now')]), 'dlen': 20, 'mlen': None}})
            iid += 1
        ias.append({'id': iid, 'kind': 'rr', 'by': 'client', 'at': round(t + 0.03, 4), 'conn': c, 'probe': True,
                    'req': {'dlen': 16, 'mlen': None}, 'resp': {'mode': 'now', 'dlen': 24, 'mlen': None}})
        iid += 1
        cause = _pick(rng, [(2, 'server_eof'), (1, 'reset'), (2, 'explicit')])
        via = 'script' if cause == 'explicit' else _pick(rng, [(1, 'on_close'), (1, 'script')])
        t_end = round(t + 0.08, 4)
        ev = {'conn': c, 'cause': cause, 'at': t_end, 'via': via, 'hops': rng.randint(0, 3)}
        t = t_end + 0.3
        if via == 'script':
            ev['reconnect_at'] = round(t, 4)
            t += 0.2
        events.append(ev)
        c += 1
    # the connection everything ends up on
    ias.append({'id': iid, 'kind': 'rr', 'by': 'client', 'at': round(t + 0.05, 4), 'conn': c, 'probe': True,
                'req': {'dlen': 16, 'mlen': None}, 'resp': {'mode': 'now', 'dlen': 24, 'mlen': None}})
    plan['events'] = events
    plan['interactions'] = ias
    plan['connect_fail'] = fails
    plan['horizon'] = t + 1.0
    return plan


def gen_reconnect_lease(seed, opts=None):
    return gen_reconnect(seed, dict(opts or {}, lease=True))


def run_reconnect(plan):
    world = World(plan)
    world.rr_futures = {}
    world.subscribers = {}
    world.handlers = {}
    world.install()
    try:
        _run(world, plan)
    except SimCap as e:
        world.incomplete = str(e)
    finally:
        world.final_digest = world.digest()
        world.uninstall()
    return world


def _run(world, plan):
    from rsocket.rsocket_client import RSocketClient
    from rsocket.rsocket_server import RSocketServer
    loop = world.loop
    ccfg = plan['client']
    H = app.handler_class()
    scripts = {ia['id']: ia for ia in plan['interactions']}
    links = []
    servers = []
    state = {'conn': -1}
    events_by_conn = {e['conn']: e for e in plan.get('events', [])}
    requested = set()  # connections for which reconnect() was already requested (never stored in the plan)

    def server_factory(k):
        def f():
            h = H(world, 'server#%d' % k, scripts, None)
            return h

        return f

    async def provider():
        k = 0
        while True:
            world.rec('prov', what='asked', conn=k)
            pol = plan['link']
            link = net.ByteLink(world, dict(pol['c2s'], seed=k * 2 + 1), dict(pol['s2c'], seed=k * 2 + 2), name='link%d' % k)
            link.c2s.name = 'c2s#%d' % k
            link.s2c.name = 's2c#%d' % k
            links.append(link)
            evk = events_by_conn.get(k)
            if evk is not None and evk['cause'] == 'cut':
                link.set_cut('s2c', evk['offset'], evk['mode'])
            st = world.make_tcp_transport('server#%d' % k, link.server_reader, link.server_writer)
            skw = {}
            if plan.get('lease'):
                from .exec_peer import _make_lease_publisher
                lz = plan['lease']
                skw['lease_publisher'] = _make_lease_publisher(world, [{'at': loop.time() + lz['delay'], 'n': lz['n'], 'ttl_us': lz['ttl_us']}])
            if plan.get('server', {}).get('fragment'):
                skw['fragment_size_bytes'] = plan['server']['fragment']
            server = RSocketServer(st, handler_factory=server_factory(k),
                                   keep_alive_period=timedelta(seconds=1000), max_lifetime_period=timedelta(seconds=10000), **skw)
            world.tap_endpoint('server#%d' % k, server)
            servers.append(server)
            ct = world.make_tcp_transport('client#%d' % k, link.client_reader, link.client_writer)
            cd = plan.get('connect_delay')
            if k in plan.get('connect_fail', ()):
                # the dial fails: connect() raises (after its suspension, if any); like a lazily dialled transport it never
                # becomes ready, so nothing can be sent or received on it
                never = asyncio.Event()

                async def failing_connect(k=k):
                    world.rec('tr', ep='client#%d' % k, what='connect_suspended')
                    if cd:
                        if cd[0] == 'hops':
                            for _ in range(cd[1]):
                                await asyncio.sleep(0)
                        else:
                            await asyncio.sleep(cd[1])
                    world.rec('fault', what='connect_failed', conn=k)
                    world.fault_fired('connect_failed')
                    raise ConnectionRefusedError(111, 'Connect call failed')

                def never_gate(fn, never=never):
                    async def gated(*a):
                        await never.wait()
                        return await fn(*a)

                    return gated

                ct.send_frame = never_gate(ct.send_frame)
                ct.next_frame_generator = never_gate(ct.next_frame_generator)
                ct.connect = failing_connect
            elif cd:
                orig_connect = ct.connect
                ready = asyncio.Event()

                async def slow_connect(orig_connect=orig_connect, k=k, ready=ready):
                    world.rec('tr', ep='client#%d' % k, what='connect_suspended')
                    if cd[0] == 'hops':
                        for _ in range(cd[1]):
                            await asyncio.sleep(0)
                    else:
                        await asyncio.sleep(cd[1])
                    await orig_connect()
                    ready.set()

                # like a lazily dialled transport (TransportAioHttpClient): nothing is sent or received before connect() is through
                def gate(fn, ready=ready):
                    async def gated(*a):
                        await ready.wait()
                        return await fn(*a)

                    return gated

                ct.send_frame = gate(ct.send_frame)
                ct.next_frame_generator = gate(ct.next_frame_generator)
                ct.connect = slow_connect
            state['conn'] = k
            yield ct
            k += 1

    def client_factory():
        h = H(world, 'client', {i: x for i, x in scripts.items() if x.get('by') == 'server'}, None)
        world.handlers['client'] = h

        async def on_close_hook(rs):
            k = state['conn']
            ev = events_by_conn.get(k)
            if ev is not None and ev.get('via') == 'on_close' and k not in requested:
                requested.add(k)
                world.rec('act', ep='client', what='reconnect', via='on_close', conn=k)
                await rs.reconnect()
                if plan.get('on_close_sleep'):
                    await asyncio.sleep(plan['on_close_sleep'])  # the handler goes on doing something after asking to reconnect
            elif plan.get('on_close_also_reconnects') and k in requested and not state.get('closing'):
                world.rec('act', ep='client', what='reconnect_again', via='on_close', conn=k)
                await rs.reconnect()

        async def on_timeout_hook(rs):
            k = state['conn']
            ev = events_by_conn.get(k)
            if ev is not None and ev.get('via') == 'on_keepalive_timeout' and k not in requested:
                requested.add(k)
                world.rec('act', ep='client', what='reconnect', via='on_keepalive_timeout', conn=k)
                await rs.reconnect()

        async def on_connection_error_hook(rs):
            k = state['conn']
            ev = events_by_conn.get(k)
            if ev is not None and ev.get('via') == 'on_connection_error' and k not in requested:
                requested.add(k)
                world.rec('act', ep='client', what='reconnect', via='on_connection_error', conn=k)
                await rs.reconnect()

        h.on_close_hook = on_close_hook
        h.on_keepalive_timeout_hook = on_timeout_hook
        h.on_connection_error_hook = on_connection_error_hook
        return h

    def boot():
        client = RSocketClient(provider(), handler_factory=client_factory,
                               keep_alive_period=timedelta(milliseconds=ccfg['keepalive_ms']),
                               max_lifetime_period=timedelta(milliseconds=ccfg['lifetime_ms']),
                               fragment_size_bytes=ccfg.get('fragment'), honor_lease=bool(plan.get('lease')))
        world.tap_endpoint('client', client)
        orig_connect = client.connect

        async def connect_tapped():
            r = await orig_connect()
            if state['conn'] not in plan.get('connect_fail', ()):
                world.rec('act', ep='client', what='connected', conn=state['conn'])
                state['connected'] = state['conn']
            return r

        client.connect = connect_tapped
        loop.create_task(client.connect())

    loop.call_soon(boot)

    for ev in plan.get('events', []):
        def end(ev=ev):
            k = ev['conn']
            if k >= len(links) or state['conn'] != k:
                return  # the plan's connection k is not the live one (an earlier reconnect did not happen): nothing to end
            cause = ev['cause']
            if cause == 'connect_failed':
                return
            if cause == 'cut':
                # fired by the link when the byte offset is reached; if the server never sent that much, now
                if links[k].cut_fired is None:
                    links[k].fire_cut(links[k].s2c)
                return
            world.rec('fault', what=cause, conn=k)
            world.fault_fired(cause)
            if cause == 'server_eof':
                loop.create_task(servers[k].close())
            elif cause == 'reset':
                links[k].reset()
            elif cause == 'keepalive_timeout':
                links[k].silence('s2c', True)
            elif cause == 'explicit':
                requested.add(k)
                world.rec('act', ep='client', what='reconnect', via='script', conn=k)
                loop.create_task(world.endpoints['client'].reconnect())

        if ev.get('at_iter') is not None:
            world.at_iter(ev['at_iter'], end)  # sweep: the moment is a loop iteration, not a time
        else:
            loop.call_at(ev['at'], lambda end=end, ev=ev: loop.call_after_hops(ev.get('hops', 0), end))
        if ev.get('reconnect_at') is not None and ev['cause'] != 'explicit':
            def req(ev=ev):
                if ev['conn'] not in requested and state['conn'] == ev['conn']:
                    requested.add(ev['conn'])
                    world.rec('act', ep='client', what='reconnect', via='script', conn=ev['conn'])
                    loop.create_task(world.endpoints['client'].reconnect())

            loop.call_at(ev['reconnect_at'], req)
    for ia in plan['interactions']:
        def starter(ia=ia):
            if ia.get('by') == 'server':
                name = 'server#%d' % state['conn']
                # (a server has no connection to ask on before the client's connect() is through)
                if name in world.endpoints and state.get('connected') == state['conn']:
                    app.start_interaction(world, name, ia)
                return
            app.start_interaction(world, 'client', ia)

        loop.call_at(ia['at'], starter)

    loop.run_sim(until_time=plan['horizon'])
    world.rec('mark', what='settled')
    try:
        world.observe_final('client')
    except Exception:
        pass

    async def closer():
        state['closing'] = True
        try:
            await world.endpoints['client'].close()
        except Exception as e:
            world.rec('log', level='HARNESS', msg='close raised %r' % (e,), exc=None)
        for s in servers:
            try:
                await s.close()
            except Exception:
                pass

    loop.call_soon(lambda: loop.create_task(closer()))
    loop.run_sim(until_time=loop.time() + 1.0)
    for e in loop.exceptions:
        world.rec('loopexc', **e)
    loop.exceptions.clear()


def oracle_c17(world):
    out = []
    V = lambda cls, msg, seq=None, **f: out.append(Violation('C17', 'C17.' + cls, msg, seq, **f))
    plan = world.plan
    h = world.history
    P = plan['P_ms'] / 1000.0
    mark = next((e['seq'] for e in h if e['k'] == 'mark'), float('inf'))
    events = plan.get('events', [])
    asked = [e for e in h if e['k'] == 'prov' and e['seq'] < mark]
    requests = [e for e in h if e['k'] == 'act' and e.get('what') == 'reconnect' and e['seq'] < mark]
    n_expected = 1 + len(requests)
    facts0 = dict(reconnects=len(requests), causes=','.join(e['cause'] for e in events))
    # every reconnect() request is followed by the provider being asked for the next transport; when one is not,
    # everything later in the plan runs on another connection than planned and is not judged
    for i, r in enumerate(requests):
        k = r.get('conn')
        nxt = requests[i + 1]['seq'] if i + 1 < len(requests) else mark
        if not any(r['seq'] < a['seq'] < nxt for a in asked):
            ev = next((e for e in events if e['conn'] == k), {})
            V('reconnect_request_lost', 'reconnect() requested (%s, connection %d ended by %s) but the provider was never asked for '
              'another transport' % (r.get('via'), k, ev.get('cause')), r['seq'], via=r.get('via'), cause=ev.get('cause'),
              first_connect=(k == 0))
            return out
    if len(asked) != n_expected:
        V('provider_calls', 'transport provider asked %d times for %d reconnect request(s)' % (len(asked), len(requests)),
          None, **facts0)
    for ev in events:
        k = ev['conn']
        cause = ev['cause']
        facts = dict(cause=cause, via=ev.get('via'), conn=k)
        req = next((e for e in requests if e.get('conn') == k), None)
        if req is None:
            continue
        # (1) old transport closed
        closed = [e for e in h if e['k'] == 'tr' and e.get('ep') == 'client#%d' % k and e.get('what') == 'close' and e['seq'] < mark]
        if not closed and cause != 'connect_failed':
            V('old_transport_not_closed', 'transport of connection %d was not closed on reconnect (%s)' % (k, cause), req['seq'], **facts)
        # (2) pending requests of the old connection failed
        for ia in plan['interactions']:
            if ia.get('conn') != k or ia.get('probe') or ia.get('by') == 'server':
                continue
            act = next((e for e in h if e['k'] == 'act' and e.get('what') == 'request' and e.get('iid') == ia['id']), None)
            if act is None or act['seq'] > req['seq']:
                continue
            if any(e for e in h if e['k'] == 'act' and e.get('what') == 'request_failed' and e.get('iid') == ia['id']):
                continue
            if ia['kind'] == 'rr':
                done = [e for e in h if e['k'] == 'fut' and e.get('iid') == ia['id'] and e.get('role') == 'requester' and e['seq'] < mark]
                if not done:
                    V('pending_not_failed', 'request-response %d of connection %d still pending after reconnect (%s)'
                      % (ia['id'], k, cause), None, kind='rr', **facts)
            elif ia['kind'] in ('stream', 'channel'):
                evs = [e for e in h if e['k'] == 'sub' and e.get('iid') == ia['id'] and e.get('role') == 'requester' and e['seq'] < mark]
                term = [e for e in evs if e['cb'] in ('on_complete', 'on_error') or (e['cb'] == 'on_next' and e.get('complete'))]
                if evs and not term:
                    V('pending_not_failed', '%s %d of connection %d got no terminal signal after reconnect (%s)'
                      % (ia['kind'], ia['id'], k, cause), None, kind=ia['kind'], **facts)
        # (3) fresh SETUP first on the new link
        new = k + 1
        if new in plan.get('connect_fail', ()):
            continue  # the next dial fails: nothing can be expected of that connection
        wire = [e for e in h if e['k'] == 'wire' and e['dir'] == 'c2s#%d' % new and e['seq'] < mark]
        if not wire:
            V('nothing_on_new_connection', 'nothing was ever sent on the connection opened after reconnect (%s)' % cause,
              None, **facts)
            continue
        if wire[0]['f']['type'] != 'SETUP':
            V('setup_not_first', 'first frame on the new connection is %s' % wire[0]['f']['type'], wire[0]['seq'], **facts)
        if len([e for e in wire if e['f']['type'] == 'SETUP']) != 1:
            V('setup_count', 'not exactly one SETUP on the new connection', None, **facts)
        # (4) stream ids restart from 1
        reqf = [e for e in wire if e['f']['type'] in REQ_TYPES]
        if reqf and reqf[0]['f']['sid'] != 1:
            V('ids_not_restarted', 'first stream id on the new connection is %d' % reqf[0]['f']['sid'], reqf[0]['seq'], **facts)
        # (5) keepalives resume
        next_end = next((e2 for e2 in events if e2['conn'] == new), None)
        conn_ev = next((e for e in h if e['k'] == 'act' and e.get('what') == 'connected' and e.get('conn') == new), None)
        end_t = next_end['at'] if next_end else next((e['t'] for e in h if e['k'] == 'mark'), None)
        if next_end is not None and next_end['cause'] == 'cut':
            # a connection cut at a byte offset ends when the link says so
            end_t = next((e['t'] for e in h if e['k'] == 'fault' and e.get('what') == 'cut' and e.get('dir') == 's2c#%d' % new), end_t)
        if conn_ev is not None and end_t is not None and end_t - conn_ev['t'] > 2.5 * P:
            kas = [e for e in wire if e['f']['type'] == 'KEEPALIVE' and e['f'].get('respond') and e['t'] <= end_t]
            if len(kas) < int((end_t - conn_ev['t']) / P) - 1:
                V('keepalives_not_resumed', '%d KEEPALIVEs in %.2f s on the new connection (period %.2f s)'
                  % (len(kas), end_t - conn_ev['t'], P), None, **facts)
        # (6) requests issued afterwards are served
        for ia in plan['interactions']:
            if ia.get('probe') and ia.get('conn') == new and ia.get('by') == 'server':
                # a request of the new connection's server: the client's handler sees exactly that request
                act = next((e for e in h if e['k'] == 'act' and e.get('what') == 'request' and e.get('iid') == ia['id']
                            and e.get('ep') == 'server#%d' % new), None)
                if act is None or (next_end is not None and (next_end['at'] <= ia['at'] + 0.05 or next_end['cause'] == 'cut')):
                    continue
                exp = app.nb(app.content(ia['id'], 'q', 0, 'D', ia['req']['dlen']))
                got = [e for e in h if e['k'] == 'hnd' and e.get('ep') == 'client' and e.get('method') == 'request_response'
                       and e['seq'] > act['seq'] and e.get('iid') == ia['id']]
                if len(got) != 1 or got[0].get('data') != exp:
                    V('server_request_not_delivered', 'request of the new connection\'s server (stream id restarted) reached the client '
                      'handler %d times / altered (%s)' % (len(got), cause), act['seq'], **facts)
                continue
            if ia.get('probe') and ia.get('conn') == new:
                act = next((e for e in h if e['k'] == 'act' and e.get('what') == 'request' and e.get('iid') == ia['id']), None)
                if act is None or conn_ev is None or act['seq'] < conn_ev['seq']:
                    continue  # issued before the new connection was up: not "a request issued afterwards"
                done = [e for e in h if e['k'] == 'fut' and e.get('iid') == ia['id'] and e.get('role') == 'requester' and e['seq'] < mark]
                if not done or done[0]['state'] != 'result':
                    # the probe is only meaningful if the next ending event had not started yet
                    if next_end is None or (next_end['at'] > ia['at'] + 0.05 and next_end['cause'] != 'cut'):
                        V('probe_not_served', 'request issued after reconnect (%s) was not answered: %s'
                          % (cause, done[0].get('err') if done else 'still pending'), None, **facts)
                elif done[0].get('data') != app.nb(app.content(ia['id'], 'r', 0, 'D', ia['resp']['dlen'])) or done[0].get('metadata'):
                    V('probe_response_corrupt', 'request issued after reconnect (%s) was answered with something else than the '
                      'handler\'s response' % cause, done[0]['seq'], **facts)
    # (7) on_close once per ended connection
    closes = [e for e in h if e['k'] == 'hnd' and e.get('ep') == 'client' and e['method'] == 'on_close' and e['seq'] < mark]
    ended = len([e for e in events if any(r.get('conn') == e['conn'] for r in requests)])
    if len(closes) > ended:
        V('close_notified_too_often', 'on_close delivered %d times for %d ended connection(s)' % (len(closes), ended),
          closes[-1]['seq'], **facts0)
    return out


def oracle_c14_reconnect(world):
    """Lease x reconnect: on every connection no request goes out before a LEASE has arrived on
    that connection, and never more than that lease grants."""
    out = []
    V = lambda cls, msg, seq=None, **f: out.append(Violation('C14', 'C14.' + cls, msg, seq, **f))
    plan = world.plan
    if not plan.get('lease'):
        return out
    h = world.history
    mark = next((e['seq'] for e in h if e['k'] == 'mark'), float('inf'))
    conns = sorted({int(e['dir'].split('#')[1]) for e in h if e['k'] == 'wire' and '#' in str(e['dir'])})
    for k in conns:
        lease_rx = [e for e in h if e['k'] == 'rx' and e['ep'] == 'client#%d' % k and e['f']['type'] == 'LEASE']
        reqs = [e for e in h if e['k'] == 'wire' and e['dir'] == 'c2s#%d' % k and e['f']['type'] in REQ_TYPES and e['seq'] < mark
                and not e['f'].get('_cont')]
        first_lease = lease_rx[0]['seq'] if lease_rx else float('inf')
        early = [e for e in reqs if e['seq'] < first_lease]
        if early:
            V('sent_without_lease', 'connection %d: %s written before any LEASE arrived on this connection'
              % (k, early[0]['f']['type']), early[0]['seq'], connection=k, after_reconnect=k > 0)
        if lease_rx and len({(e['f']['sid']) for e in reqs}) > sum(e['f']['n'] for e in lease_rx):
            V('sent_beyond_grant', 'connection %d: %d requests for %d granted' % (k, len(reqs), sum(e['f']['n'] for e in lease_rx)),
              None, connection=k)
    return out


# ---------------------------------------------------------------------------------------------
# other properties across a reconnect (the state a reconnect must not carry over)
# ---------------------------------------------------------------------------------------------

def _conn_no(name):
    return int(str(name).split('#')[1])


def oracle_c08_reconnect(world):
    """C08 per connection: every stream frame on a connection belongs to a stream that was opened on that
    connection (by a request frame of the side whose parity it has, written earlier)."""
    out = []
    V = lambda cls, msg, seq=None, **f: out.append(Violation('C08', 'C08.' + cls, msg, seq, **f))
    h = world.history
    mark = next((e['seq'] for e in h if e['k'] == 'mark'), float('inf'))
    opened = {}  # (conn, sid)
    flagged = set()
    for e in h:
        if e['k'] != 'wire' or '#' not in str(e.get('dir')) or e['seq'] > mark:
            continue
        f = e['f']
        sid = f.get('sid') or 0
        if sid <= 0:
            continue
        d, k = e['dir'].split('#')[0], _conn_no(e['dir'])
        mine = (sid % 2 == 1) == (d == 'c2s')  # ids of the sender's own parity
        if f['type'] in REQ_TYPES and mine:
            opened[(k, sid)] = e['seq']
            continue
        if (k, sid) not in opened and (k, sid, d) not in flagged:
            flagged.add((k, sid, d))
            V('frame_on_unopened_stream', '%s on stream %d of connection %d (%s), which was never opened on that connection'
              % (f['type'], sid, k, d), e['seq'], type=f['type'], dir=d, after_reconnect=k > 0)
    return out


def oracle_c01_reconnect(world):
    """C01 across reconnects: a response resolves the request it belongs to with the handler's payload, and a request
    issued on connection c is only ever delivered to the server of connection c."""
    out = []
    V = lambda cls, msg, seq=None, **f: out.append(Violation('C01', 'C01.' + cls, msg, seq, **f))
    plan = world.plan
    h = world.history
    ias = {ia['id']: ia for ia in plan['interactions']}
    cur = None
    issued_on = {}
    for e in h:
        if e['k'] == 'prov':
            cur = None
        elif e['k'] == 'act' and e.get('what') == 'connected':
            cur = e.get('conn')
        elif e['k'] == 'act' and e.get('what') == 'request' and e.get('ep') == 'client' and cur is not None:
            issued_on[e['iid']] = cur
        elif e['k'] == 'hnd' and str(e.get('ep', '')).startswith('server#') and e.get('iid') in issued_on:
            j = _conn_no(e['ep'])
            if j != issued_on[e['iid']]:
                V('request_delivered_on_other_connection', 'request %d was issued on connection %d but reached the handler of connection %d'
                  % (e['iid'], issued_on[e['iid']], j), e['seq'], kind=ias.get(e['iid'], {}).get('kind'))
        elif e['k'] == 'fut' and e.get('role') == 'requester' and e.get('state') == 'result' and e.get('ep') == 'client':
            ia = ias.get(e['iid'])
            if ia is not None and ia['kind'] == 'rr':
                if e.get('data') != app.nb(app.content(ia['id'], 'r', 0, 'D', ia['resp']['dlen'])) or e.get('metadata'):
                    V('response_mismatch', 'request-response %d resolved with a payload that is not its handler\'s response' % e['iid'],
                      e['seq'], probe=bool(ia.get('probe')))
    return out


def oracle_c03_reconnect(world):
    """C03 across reconnects: whatever the client reassembles is a frame one of its servers queued, unaltered."""
    out = []
    V = lambda cls, msg, seq=None, **f: out.append(Violation('C03', 'C03.' + cls, msg, seq, **f))
    h = world.history
    queued = set()
    for e in h:
        if e['k'] == 'enq' and str(e.get('ep', '')).startswith('server#'):
            f = e['f']
            queued.add((f.get('sid'), bytes(f.get('data') or b''), bytes(f.get('metadata') or b'')))
    for e in h:
        if e['k'] == 'reasm' and e.get('ep') == 'client':
            f = e['f']
            if (f.get('sid'), bytes(f.get('data') or b''), bytes(f.get('metadata') or b'')) not in queued:
                V('reassembly_mismatch', 'client reassembled a %s on stream %d (%d data bytes) that no server queued'
                  % (f['type'], f.get('sid'), len(f.get('data') or b'')), e['seq'], type=f['type'], across_reconnect=True)
                break
    return out
