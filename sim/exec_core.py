"""Executor for the 'core' family of profiles: real RSocketClient <-> real RSocketServer over a
simulated ByteLink or MessageLink, scripted applications on both ends, scripted faults."""
import asyncio
from datetime import timedelta

from .world import World, SimCap, HarnessError
from . import net, app


def _ep_kwargs(cfg, world, name, scripts, handler_holder):
    H = app.handler_class()

    def factory():
        h = H(world, name, scripts, cfg.get('buggify'))
        h.on_close_mode = cfg.get('on_close')
        handler_holder[name] = h
        return h

    kw = dict(handler_factory=factory,
              fragment_size_bytes=cfg.get('fragment'),
              honor_lease=bool(cfg.get('honor_lease')),
              request_queue_size=cfg.get('request_queue_size', 0),
              keep_alive_period=timedelta(milliseconds=cfg.get('keepalive_ms', 1_000_000)),
              max_lifetime_period=timedelta(milliseconds=cfg.get('lifetime_ms', 10_000_000)))
    if cfg.get('lease_script') is not None:
        from .exec_peer import _make_lease_publisher
        kw['lease_publisher'] = _make_lease_publisher(world, cfg['lease_script'])
    return kw


def build_link(world, plan):
    lk = plan.get('link', {})
    if plan.get('framing', 'tcp') == 'tcp':
        return net.ByteLink(world, lk.get('c2s'), lk.get('s2c'))
    return net.MessageLink(world, lk.get('c2s'), lk.get('s2c'))


def make_transports(world, plan, link, suffix=''):
    ccfg, scfg = plan.get('client', {}), plan.get('server', {})
    if isinstance(link, net.ByteLink):
        ct = world.make_tcp_transport('client' + suffix, link.client_reader, link.client_writer,
                                      ccfg.get('read_buf', 1024))
        st = world.make_tcp_transport('server' + suffix, link.server_reader, link.server_writer,
                                      scfg.get('read_buf', 1024))
        return ct, st, None
    ct = world.make_ws_transport('client' + suffix, link.client_ws, 'client')
    st = world.make_ws_transport('server' + suffix, link.server_ws, 'server')
    return ct, st, st.handle_incoming_ws_messages


def all_terminal(world, plan):
    """Application-level view: has every scripted interaction reached a terminal observation?"""
    return world.tracker.all_done()


class Tracker:
    """Cheap online tracker of which interactions are finished from the application's view
    (used only to decide when to stop the run; verdicts come from the oracles)."""

    def __init__(self, world, plan):
        self.world = world
        self.open = {}
        for ia in plan.get('interactions', []):
            self.open[ia['id']] = ia
        self.pos = 0
        self.state = {}

    def all_done(self):
        h = self.world.history
        st = self.state
        for ev in h[self.pos:]:
            k = ev['k']
            iid = ev.get('iid')
            if iid is None:
                continue
            s = st.setdefault(iid, {'req_done': False, 'resp_done': False, 'failed': False})
            if k == 'fut' and ev['role'] == 'requester':
                s['req_done'] = True
                s['resp_done'] = True if ev['state'] != 'result' or True else False
            elif k == 'hnd' and ev['method'] in ('request_fire_and_forget', 'on_metadata_push'):
                s['resp_done'] = True
            elif k == 'sub':
                term = ev['cb'] in ('on_complete', 'on_error') or (ev['cb'] == 'on_next' and ev.get('complete'))
                if term:
                    s['req_done' if ev['role'] == 'requester' else 'resp_done'] = True
            elif k == 'act' and ev['what'] == 'cancel':
                s['req_done'] = True
                s['cancelled'] = True
            elif k == 'act' and ev['what'] == 'request_failed':
                s['req_done'] = s['resp_done'] = True
        self.pos = len(h)
        for iid, ia in self.open.items():
            s = st.get(iid)
            if s is None:
                return False
            kind = ia['kind']
            if kind in ('fnf', 'push'):
                if not (s['resp_done'] and s['req_done']):
                    return False
            elif kind in ('rr', 'stream'):
                if not s['req_done']:
                    return False
            else:  # channel: requester's subscriber terminal, and the responder's subscriber (if any)
                if not s['req_done']:
                    return False
                if ia.get('resp', {}).get('sub') is not None and not (s['resp_done'] or s.get('cancelled')):
                    # responder subscriber never subscribed if the handler raised / request unknown
                    if not s.get('failed'):
                        return False
        return True


def run_core(plan):
    """Execute a core-profile plan; returns the World (history, stats, probes...)."""
    world = World(plan)
    world.rr_futures = {}
    world.subscribers = {}
    world.handlers = {}
    world.tracker = Tracker(world, plan)
    world.install()
    loop = world.loop
    try:
        _run_core(world, plan)
    except SimCap as e:
        world.incomplete = str(e)
    finally:
        world.final_digest = world.digest()
        world.uninstall()
    return world


def _run_core(world, plan):
    from rsocket.rsocket_client import RSocketClient
    from rsocket.rsocket_server import RSocketServer
    loop = world.loop
    link = build_link(world, plan)
    world.link = link
    ccfg, scfg = plan.get('client', {}), plan.get('server', {})
    by_responder = {'client': {}, 'server': {}}
    for ia in plan.get('interactions', []):
        responder = 'server' if ia.get('by', 'client') == 'client' else 'client'
        by_responder[responder][ia['id']] = ia

    state = {}

    async def provider(ct):
        yield ct

    def boot():
        ct, st, server_pump = make_transports(world, plan, link)
        skw = _ep_kwargs(scfg, world, 'server', by_responder['server'], world.handlers)
        server = RSocketServer(st, **skw)
        world.tap_endpoint('server', server)
        if server_pump is not None:
            state['server_pump'] = loop.create_task(server_pump())
        ckw = _ep_kwargs(ccfg, world, 'client', by_responder['client'], world.handlers)
        client = RSocketClient(provider(ct), **ckw)
        world.tap_endpoint('client', client)
        if scfg.get('max_sid'):
            server._stream_control._maximum_stream_id = scfg['max_sid']
        if scfg.get('sid_start') is not None:
            server._stream_control._current_stream_id = scfg['sid_start']

        async def connect():
            await client.connect()
            # connect() resets internals (a new StreamControl): apply the id-space knobs after it
            if ccfg.get('max_sid'):
                client._stream_control._maximum_stream_id = ccfg['max_sid']
            if ccfg.get('sid_start') is not None:
                client._stream_control._current_stream_id = ccfg['sid_start']
            world.rec('act', ep='client', what='connected')

        state['connect'] = loop.create_task(connect())

    loop.call_soon(boot)

    t0 = plan.get('t0', 0.01)  # interactions start after the connection is up
    for ia in plan.get('interactions', []):
        who = ia.get('by', 'client')
        if ia.get('via_retry'):
            continue  # issued by the application from inside another stream's on_error

        def starter(ia=ia, who=who):
            loop.call_after_hops(ia.get('hops', 0), app.start_interaction, world, who, ia)

        loop.call_at(t0 + ia.get('at', 0.0), starter)

    # faults
    sweep_hook = None
    for ft in plan.get('faults', []):
        kind = ft['kind']
        if kind == 'cut':
            if ft.get('half_dead') and isinstance(link, net.ByteLink):
                link.set_cut(ft['dir'], ft['offset'], ft['mode'], half_dead=True)
            else:
                link.set_cut(ft['dir'], ft['offset'], ft['mode'])
        elif kind == 'stall':
            def stall(ft=ft):
                p = _out_of(link, ft['who'])
                p.stall_until = loop.time() + ft['dur']
                world.fault_fired('stall')

            loop.call_at(ft['at'], stall)
        elif kind in ('close', 'reset', 'eof'):
            def fire(ft=ft):
                _fire_conn_fault(world, link, ft)

            if ft.get('at_iter') is not None:
                world.at_iter(ft['at_iter'], fire)
            else:
                loop.call_at(ft['at'], lambda fire=fire, ft=ft: loop.call_after_hops(ft.get('hops', 0), fire))

    horizon = plan.get('horizon', 600.0)
    settle = plan.get('settle', 5.0)
    has_conn_fault = any(f['kind'] in ('cut', 'close', 'reset', 'eof') for f in plan.get('faults', []))

    quiet = plan.get('quiet', 10.0)
    seen = [0]

    def finished():
        now = loop._now
        if now < t0:
            return False
        if now - world.last_progress > quiet:
            world.stats['quiet_stop'] = 1
            return True
        n = len(world.history)
        if n == seen[0]:
            return False
        seen[0] = n
        return world.tracker.all_done()

    if has_conn_fault:
        loop.run_sim(until_time=horizon)
    else:
        r = loop.run_sim(until_time=horizon, stop_when=finished)
        world.stats['stop_reason'] = r
        if r != 'stop' or world.stats.get('quiet_stop'):
            world.stats['stop_reason'] = 'quiet' if world.stats.get('quiet_stop') else r
            world.stats['unfinished'] = 1
    # settle: let in-flight frames land and cleanup run; a slow link (write stalls) may need much
    # longer than the nominal window to drain what is already queued
    loop.run_sim(until_time=loop.time() + settle)

    # ... so wait until nothing but keepalives has happened for a while (frames still being
    # written, delivered or reassembled all count as progress)
    deadline = loop.time() + plan.get('drain_window', 900.0)
    while loop.time() - world.last_progress < 2.0 and loop.time() < deadline:
        loop.run_sim(until_time=loop.time() + 1.0)
    if loop.time() - world.last_progress < 2.0:
        world.stats['not_drained'] = 1
    world.rec('mark', what='settled')
    for name in ('client', 'server'):
        world.observe_final(name)
    world.stats['iters_main'] = loop.iters
    if plan.get('end_close', True):
        async def closer():
            for name in ('client', 'server'):
                try:
                    await world.endpoints[name].close()
                except Exception as e:
                    world.rec('log', level='HARNESS', msg='close raised %r' % (e,), exc=None)

        t = None

        def mk():
            nonlocal t
            t = loop.create_task(closer())

        loop.call_soon(mk)
        loop.run_sim(until_time=loop.time() + 1.0)
    for e in loop.exceptions:
        world.rec('loopexc', **e)
    loop.exceptions.clear()


def _out_of(link, who):
    if isinstance(link, net.ByteLink):
        return link.c2s if who == 'client' else link.s2c
    return link.client_ws if who == 'client' else link.server_ws


def _fire_conn_fault(world, link, ft):
    loop = world.loop
    kind = ft['kind']
    world.rec('fault', what=kind, who=ft.get('who'), dir=ft.get('dir'))
    world.fault_fired(kind)
    if kind == 'close':
        ep = world.endpoints.get(ft['who'])
        if ep is None:
            return

        async def do_close():
            try:
                await ep.close()
            except Exception as e:
                world.rec('log', level='HARNESS', msg='close raised %r' % (e,), exc=None)
            world.rec('act', ep=ft['who'], what='close_returned')

        loop.create_task(do_close())
    elif kind == 'reset':
        if isinstance(link, net.ByteLink):
            link.reset()
        elif ft.get('who'):
            link.transport_error(ft['who'])
        else:
            link.reset()
    elif kind == 'eof':
        link.eof_now(ft['dir'])
