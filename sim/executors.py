"""Executor registry: plan['exec'] -> function(plan) -> World."""
from .exec_parser import run_parser
from .exec_peer import run_peer

EXECUTORS = {
    'parser': run_parser,
    'peer': run_peer,
}
