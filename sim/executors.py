"""Executor registry: plan['exec'] -> function(plan) -> World."""
from .exec_parser import run_parser

EXECUTORS = {
    'parser': run_parser,
}
