"""Executor registry: plan['exec'] -> function(plan) -> World."""
from .exec_parser import run_parser
from .exec_peer import run_peer
from .exec_reconnect import run_reconnect
from .exec_routing import run_routing
from .exec_rx import run_rx

EXECUTORS = {
    'parser': run_parser,
    'peer': run_peer,
    'reconnect': run_reconnect,
    'routing': run_routing,
    'rx': run_rx,
}
