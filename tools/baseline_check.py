#!/venv/bin/python
"""Run the repository's pinned suite (BASELINE.json cmd) and report every stable_pass test that
did not pass.  Exit 0 iff all 501 stable tests pass.  Used with the hooks guard off (there are
no hooks) and after every `fix:` commit."""
import json
import os
import subprocess
import sys
import tempfile
import xml.etree.ElementTree as ET

base = json.load(open('/root/.vp/BASELINE.json'))
stable = set(base['stable_pass'])
out = tempfile.mktemp(suffix='.junit.xml', dir=os.environ.get('TMPDIR', '/tmp'))
cmd = base['cmd'].replace('<file>', out)
env = dict(os.environ)
env.pop('RSOCKET_PY_VERIF', None)
p = subprocess.run(cmd, shell=True, env=env, capture_output=True, text=True)
tree = ET.parse(out)
os.unlink(out)
passed = set()
seen = set()
for tc in tree.iter('testcase'):
    name = '%s::%s' % (tc.get('classname'), tc.get('name'))
    seen.add(name)
    if not any(ch.tag in ('failure', 'error', 'skipped') for ch in tc):
        passed.add(name)
missing = sorted(stable - passed)
if missing and len(missing) <= 40:
    # the suite runs over real sockets and real sleeps: retry non-passing stable tests once, alone
    ids = []
    for m in missing:
        mod, name = m.split('::', 1)
        ids.append(mod.replace('.', '/') + '.py::' + name)
    out2 = tempfile.mktemp(suffix='.junit.xml', dir=os.environ.get('TMPDIR', '/tmp'))
    subprocess.run(['/venv/bin/python', '-m', 'pytest', '-q', '-p', 'no:cacheprovider', '--timeout=600',
                    '--junitxml=' + out2] + ids, cwd='/repo', env=env, capture_output=True, text=True)
    if os.path.exists(out2):
        for tc in ET.parse(out2).iter('testcase'):
            name = '%s::%s' % (tc.get('classname'), tc.get('name'))
            if not any(ch.tag in ('failure', 'error', 'skipped') for ch in tc):
                passed.add(name)
                print('passed on isolated retry:', name)
        os.unlink(out2)
    missing = sorted(stable - passed)
print('stable=%d passed_of_stable=%d not_passed=%d total_seen=%d' % (len(stable), len(stable & passed), len(missing), len(seen)))
for m in missing:
    print('NOT PASSED:', m)
sys.exit(0 if not missing else 1)
