#!/venv/bin/python
"""Replace the table of DESIGN.md section 8.5 with the rendering of seeded/RESULTS.json (tools/seeded_table.py)."""
import os
import subprocess

VERIF = os.path.dirname(os.path.dirname(os.path.abspath(__file__)))
p = os.path.join(VERIF, 'DESIGN.md')
s = open(p).read()
table = subprocess.run(['/venv/bin/python', os.path.join(VERIF, 'tools', 'seeded_table.py')], capture_output=True, text=True, check=True).stdout
a = s.index('| seeded change | breaks |')
b = s.index('Changes that were first missed')
s = s[:a] + table.rstrip('\n') + '\n\n' + s[b:]
open(p, 'w').write(s)
print('table rows:', table.count('\n') - 2)
