#!/bin/sh
# development aid: apply seeded/<id>/patch.diff in a scratch worktree and run the stable part of the pinned suite there
id=$1; W=/tmp/ct_$id
git -C /repo worktree add --detach $W HEAD -q 2>/dev/null
git -C $W apply /verif/seeded/$id/patch.diff || { echo "patch does not apply"; git -C /repo worktree remove --force $W; exit 2; }
cd $W && timeout 1500 /venv/bin/python -m pytest -q -p no:cacheprovider --timeout=120 tests/rsocket tests/rx_support tests/test_reactivex -k "not quart and not quic and not http3" 2>&1 | grep -E "^(FAILED|ERROR)|passed|failed" | tail -12
cd /; git -C /repo worktree remove --force $W
