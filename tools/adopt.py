#!/venv/bin/python
"""Adopt a change produced by an independent sub-agent: verify patch + demonstration in fresh
scratch worktrees of /repo (demo passes on the unchanged tree, fails with the change, the change
imports), then store it as /verif/seeded/<id>/.  Usage: tools/adopt.py <agent_out_dir> <id>"""
import json
import os
import shutil
import subprocess
import sys

VERIF = os.path.dirname(os.path.dirname(os.path.abspath(__file__)))


def sh(cmd, **kw):
    return subprocess.run(cmd, shell=True, capture_output=True, text=True, **kw)


def main():
    src, mid = sys.argv[1], sys.argv[2]
    dst = os.path.join(VERIF, 'seeded', mid)
    wt = '/tmp/adopt_%s_%d' % (mid, os.getpid())
    sh('git -C /repo worktree add --detach %s HEAD' % wt)
    report = {}
    try:
        demo = os.path.join(src, 'demo.py')
        r0 = sh('cd %s && timeout 120 /venv/bin/python %s' % (wt, demo))
        report['demo_unchanged'] = {'exit': r0.returncode, 'tail': (r0.stdout + r0.stderr)[-300:]}
        ap = sh('git -C %s apply %s/patch.diff' % (wt, src))
        report['patch_applies'] = ap.returncode == 0
        if ap.returncode != 0:
            report['apply_error'] = ap.stderr[-300:]
        r1 = sh('cd %s && timeout 120 /venv/bin/python %s' % (wt, demo))
        report['demo_changed'] = {'exit': r1.returncode, 'tail': (r1.stdout + r1.stderr)[-300:]}
        imp = sh('cd %s && /venv/bin/python -c "import rsocket.rsocket_client, rsocket.rsocket_server, rsocket.reactivex.reactivex_client"' % wt)
        report['imports'] = imp.returncode == 0
        if '--tests' in sys.argv:
            t = sh('cd %s && timeout 2400 /venv/bin/python -m pytest -q -p no:cacheprovider --timeout=120 tests/rsocket tests/rx_support '
                   'tests/test_reactivex -k "not quart and not quic and not http3" 2>&1 | tail -15' % wt)
            report['tests_tail'] = t.stdout[-1500:]
    finally:
        sh('git -C /repo worktree remove --force %s' % wt)
    ok = report['demo_unchanged']['exit'] == 0 and report.get('patch_applies') and report['demo_changed']['exit'] != 0 and report['imports']
    report['accepted'] = bool(ok)
    print(json.dumps(report, indent=1))
    if ok:
        os.makedirs(dst, exist_ok=True)
        for f in ('patch.diff', 'demo.py'):
            shutil.copy(os.path.join(src, f), os.path.join(dst, f))
        meta = json.load(open(os.path.join(src, 'meta.json')))
        meta['id'] = mid
        meta['origin'] = 'independent sub-agent given only the property text and a scratch worktree'
        meta['breaks'] = [meta.get('property')]
        meta['expected_detection'] = {meta.get('property'): []}
        meta['adoption_check'] = report
        json.dump(meta, open(os.path.join(dst, 'meta.json'), 'w'), indent=1)
    return 0 if ok else 1


if __name__ == '__main__':
    sys.exit(main())
