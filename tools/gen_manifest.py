#!/venv/bin/python
"""Generate /verif/MANIFEST.json from the check registry (single source of truth) and validate
it against the schema."""
import json
import os
import sys

VERIF = os.path.dirname(os.path.dirname(os.path.abspath(__file__)))
sys.path.insert(0, VERIF)
sys.path.insert(0, '/repo')
from sim import checks  # noqa: E402

TEXT = checks.MANIFEST_TEXT

manifest = {
    'version': 1,
    'setup_cmd': '/venv/bin/python -B -c "import sys; sys.path[:0]=[\'/repo\',\'/verif\']; import sim.cli, aiohttp, rx, reactivex; print(\'simcheck ready\')"',
    'hooks': {
        'guard': 'RSOCKET_PY_VERIF',
        'enable': 'no hooks are needed: every seam (event loop, Transport, StreamReader/Writer, module-level datetime, '
                  'RequestHandler/Publisher/Subscriber) already exists in /repo; checks import /repo\'s working tree directly',
        'baseline_off_cmd': 'cd /repo && /venv/bin/python -m pytest -ra -q -p no:cacheprovider --timeout=900 '
                            '--continue-on-collection-errors',
        'source_commits': [],
        'add_only': True,
    },
    'engines': [{
        'name': 'simcheck',
        'path': '/verif/simcheck',
        'serves_properties': sorted(checks.CHECKS),
        'kind_free_text': 'deterministic simulation with fault injection: virtual-time asyncio loop (SimLoop), simulated '
                          'byte/message links, seeded scenario plans, reference-model oracles, ddmin plan shrinker, replay files',
    }],
    'checks': [],
    'not_applicable': [],
    'notes': checks.MANIFEST_NOTES,
}
for prop in sorted(checks.CHECKS):
    spec = checks.CHECKS[prop]
    t = TEXT[prop]
    manifest['checks'].append({
        'property_id': prop,
        'quick_cmd': './simcheck check %s --tier quick' % prop,
        'thorough_cmd': './simcheck check %s --tier thorough' % prop,
        'evidence_file': '/verif/evidence/%s.json' % prop,
        'replay_cmd_template': './simcheck replay {path}',
        'engine': 'simcheck',
        'level_claimed': {'category': spec['level'], 'text': t['text'], 'design_ref': t.get('design_ref', 'DESIGN.md §3 ' + prop)},
        'level_note': t['note'],
        'technique': t.get('technique', 'deterministic simulation with fault injection (seeded schedule/fault search, '
                                        'reference-model oracle)'),
    })
for prop, reason in sorted(checks.NOT_APPLICABLE.items()):
    if prop not in checks.CHECKS:
        manifest['not_applicable'].append({'property_id': prop, 'reason': reason})
path = os.path.join(VERIF, 'MANIFEST.json')
with open(path, 'w') as f:
    json.dump(manifest, f, indent=1)
try:
    import jsonschema
    jsonschema.validate(manifest, json.load(open('/root/.vp/MANIFEST.schema.json')))
    print('MANIFEST.json valid: %d checks, %d not applicable' % (len(manifest['checks']), len(manifest['not_applicable'])))
except ImportError:
    print('jsonschema not available in this interpreter; written without validation')
