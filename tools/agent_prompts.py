#!/venv/bin/python
"""Write the prompt files for a round of seeded-change sub-agents (development tool).
Usage: tools/agent_prompts.py <round-tag> <prop> [<prop> ...]   ->  /tmp/<tag>_out/<prop>_prompt.txt, worktree /tmp/<tag>_<prop>
Each agent gets the property text, its own scratch worktree and the one-line list of changes already tried; nothing else."""
import json
import os
import subprocess
import sys

VERIF = os.path.dirname(os.path.dirname(os.path.abspath(__file__)))
TEMPLATE = open(os.path.join(VERIF, 'tools', 'agent_prompt_template.txt')).read()


def main():
    tag, props = sys.argv[1], sys.argv[2:]
    P = {}
    for line in open(os.path.join(VERIF, 'properties.jsonl')):
        p = json.loads(line)
        P[p['id']] = p
    tried = []
    sd = os.path.join(VERIF, 'seeded')
    for mid in sorted(os.listdir(sd)):
        mp = os.path.join(sd, mid, 'meta.json')
        if not os.path.exists(mp):
            continue
        m = json.load(open(mp))
        summ = (m.get('summary') or m.get('needs') or '').replace('\n', ' ')
        tried.append('- [%s] %s: %s' % (','.join(m.get('breaks') or [m.get('property', '?')]), ', '.join(m.get('files', []) or [mid]), summ[:260]))
    out = '/tmp/%s_out' % tag
    os.makedirs(out, exist_ok=True)
    for pid in props:
        p = P[pid]
        wt = '/tmp/%s_%s' % (tag, pid)
        subprocess.run('git -C /repo worktree add --detach %s HEAD' % wt, shell=True, capture_output=True)
        os.makedirs(os.path.join(out, pid), exist_ok=True)
        text = TEMPLATE.replace('{WT}', wt).replace('{OUT}', os.path.join(out, pid)).replace('{PID}', pid) \
            .replace('{TITLE}', p['title']).replace('{STATEMENT}', p['statement']).replace('{QUANT}', p['quantifier']['text']) \
            .replace('{WHY}', p['why_tests_cant']).replace('{FILES}', ', '.join(p['anchors']['files'])).replace('{TRIED}', '\n'.join(tried))
        open(os.path.join(out, pid + '_prompt.txt'), 'w').write(text)
        print(os.path.join(out, pid + '_prompt.txt'))


if __name__ == '__main__':
    main()
