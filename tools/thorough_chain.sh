#!/bin/sh
# development aid: thorough tier of the given properties, one after the other; usage: tools/thorough_chain.sh <workers> C04 C15 ...
cd "$(dirname "$0")/.."
w=$1; shift
for p in "$@"; do
  echo "=== $p $(date)"
  ./simcheck check $p --tier thorough --workers $w 2>&1 | grep -E "VIOLATION|KNOWN-FINDING|HARNESS|tier=thorough|class=" | cut -c1-400
  echo "exit=$? $(date)"
done
