#!/venv/bin/python
"""Sensitivity gate: apply each seeded change under /verif/seeded/<id>/patch.diff to /repo, run
the quick check of every property it is expected to break, expect exit 1 + VIOLATION, undo.
Development tool (not a registered command).  Usage: tools/mutants.py [--all-checks] [id ...]"""
import json
import os
import subprocess
import sys
import time

VERIF = os.path.dirname(os.path.dirname(os.path.abspath(__file__)))
SEEDED = os.path.join(VERIF, 'seeded')


def sh(cmd, **kw):
    return subprocess.run(cmd, shell=True, capture_output=True, text=True, **kw)


def clean():
    return sh('git -C /repo status --porcelain --untracked-files=no').stdout.strip() == ''


def main():
    args = [a for a in sys.argv[1:] if not a.startswith('--')]
    all_checks = '--all-checks' in sys.argv
    ids = args or sorted(d for d in os.listdir(SEEDED) if os.path.isdir(os.path.join(SEEDED, d)))
    results = {}
    res_path = os.path.join(SEEDED, 'RESULTS.json')
    if os.path.exists(res_path):
        results = json.load(open(res_path))
    manifest = json.load(open(os.path.join(VERIF, 'MANIFEST.json')))
    claimed = [c['property_id'] for c in manifest['checks']]
    for mid in ids:
        d = os.path.join(SEEDED, mid)
        meta = json.load(open(os.path.join(d, 'meta.json')))
        if meta.get('neutralised_by'):
            print('%s: skipped, neutralised by fix %s' % (mid, meta['neutralised_by']))
            results[mid] = {'breaks': meta.get('breaks'), 'neutralised_by': meta['neutralised_by'], 'checks': {}, 'caught_by': []}
            continue
        props = claimed if all_checks else [p for p in meta.get('expected_detection', {}) or meta.get('breaks', []) if p in claimed]
        scratch = '/tmp/mut_%s_%d' % (mid, os.getpid())
        sh('git -C /repo worktree add --detach %s HEAD' % scratch)
        ap = sh('git -C %s apply %s/patch.diff' % (scratch, d))
        if ap.returncode != 0:
            print('%s: patch does not apply: %s' % (mid, ap.stderr[:200]))
            results[mid] = {'error': 'patch does not apply'}
            sh('git -C /repo worktree remove --force %s' % scratch)
            continue
        row = {}
        try:
            for prop in props:
                t = time.time()
                env = dict(os.environ, SIM_REPO=scratch, SIM_OUT=scratch + '_out')
                r = sh('./simcheck check %s --tier quick --no-selftest' % prop, cwd=VERIF, timeout=1800, env=env)
                viol = [l for l in r.stdout.splitlines() if l.startswith('VIOLATION')]
                classes = [l.split('class=')[1].split()[0] for l in r.stdout.splitlines() if l.strip().startswith('class=')]
                row[prop] = {'exit': r.returncode, 'violations': len(viol), 'classes': classes, 'wall_s': round(time.time() - t, 1)}
                print('%s %s exit=%d classes=%s (%.0fs)' % (mid, prop, r.returncode, classes, time.time() - t))
        finally:
            sh('git -C /repo worktree remove --force %s' % scratch)
            sh('rm -rf %s_out' % scratch)
        results[mid] = {'breaks': meta.get('breaks'), 'checks': row,
                        'caught_by': sorted(p for p, v in row.items() if v['exit'] == 1)}
        json.dump(results, open(res_path, 'w'), indent=1, sort_keys=True)
    missed = [m for m in ids if not results.get(m, {}).get('caught_by') and not results.get(m, {}).get('neutralised_by')]
    print('missed:', missed)
    return 1 if missed else 0


if __name__ == '__main__':
    sys.exit(main())
