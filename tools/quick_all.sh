#!/bin/sh
# development aid: every registered quick check, one after the other; prints one summary line each
cd "$(dirname "$0")/.."
for p in $(/venv/bin/python -c "import json;print(' '.join(c['property_id'] for c in json.load(open('MANIFEST.json'))['checks']))"); do
  start=$(date +%s)
  out=$(timeout 3000 ./simcheck check $p --tier quick 2>&1); rc=$?
  echo "== $p exit=$rc $(( $(date +%s) - start ))s"
  echo "$out" | grep -E "VIOLATION|KNOWN-FINDING|HARNESS|tier=quick|class=" | cut -c1-300
done
