#!/venv/bin/python
"""Render /verif/seeded/RESULTS.json + meta.json as the markdown table of DESIGN.md section 8.5."""
import json
import os

VERIF = os.path.dirname(os.path.dirname(os.path.abspath(__file__)))
res = json.load(open(os.path.join(VERIF, 'seeded', 'RESULTS.json')))
rows = []
for mid in sorted(res):
    mp = os.path.join(VERIF, 'seeded', mid, 'meta.json')
    if not os.path.exists(mp):
        continue
    meta = json.load(open(mp))
    r = res[mid]
    checks = r.get('checks', {})
    caught = ['%s (%s)' % (p, ', '.join(c.split('.', 1)[1] for c in v['classes']) or '-') for p, v in sorted(checks.items()) if v['exit'] == 1]
    missed = [p for p, v in sorted(checks.items()) if v['exit'] != 1]
    what = (meta.get('summary') or meta.get('needs') or '').replace('\n', ' ').replace('|', '/')
    if len(what) > 230:
        what = what[:227] + '...'
    rows.append('| %s | %s | %s | %s | %s |' % (mid, ', '.join(meta.get('breaks') or []), what, '; '.join(caught) or ('(harmless since fix %s, see fixed-D19)' % r['neutralised_by'] if r.get('neutralised_by') else '**none**'),
                                                  ', '.join(missed) or '-'))
print('| seeded change | breaks | what it does / needs | caught by quick check (violation classes) | run and not caught by |')
print('|---|---|---|---|---|')
print('\n'.join(rows))
